#!/bin/sh
# Builds the framework and the repository artefacts from files on disk only (offline).
cd "$(dirname "$0")" || exit 1
export CARGO_NET_OFFLINE=true
exec python3-vt -B -m dv.setup
