// usage: node js-edges.mjs <js_dir> <spec.json>
// Executes generated JS methods under the stub wasm module and reports which of the objects passed in are reachable from
// the lifetime-edge arrays (#selfEdge / #aEdge / ...) of the returned object. The private fields are read through the
// V8 inspector (node:inspector), so the generated code runs unmodified.
// spec: {methods: [{cls, name, self: valueTree|null, args: [valueTree]}]}
// valueTree: {k:"opaque", ty, label} | {k:"none"} | {k:"slice", v:[..]} | {k:"str", v:".."} | {k:"struct", ty, fields:{name: valueTree}}
// prints one JSON line: [{threw: msg} | {ret: "null"|"object", edges: {"#aEdge": [labels...]}, all: [labels]}]
import fs from "fs";
import path from "path";
import inspector from "node:inspector";
import { pathToFileURL } from "url";
const dir = process.argv[2];
const spec = JSON.parse(fs.readFileSync(process.argv[3], "utf8"));
const rt = await import(pathToFileURL(path.join(dir, "diplomat-runtime.mjs")).href);
const stub = await import(pathToFileURL(path.join(dir, "diplomat-wasm.mjs")).href);
const mods = {};
async function cls(name) {
    if (!mods[name]) mods[name] = (await import(pathToFileURL(path.join(dir, name + ".mjs")).href))[name];
    return mods[name];
}
const session = new inspector.Session();
session.connect();
function post(method, params) {
    return new Promise((res, rej) => session.post(method, params, (e, r) => (e ? rej(e) : res(r))));
}
const tags = new Map();
let nextPtr = 0x10000;
globalThis.__dvFlatten = function (arr) {
    const out = [];
    const walk = (x) => {
        if (Array.isArray(x)) { for (const y of x) walk(y); return; }
        if (x !== null && typeof x === "object" && tags.has(x)) { out.push(tags.get(x)); return; }
        out.push(x === null ? "null" : (typeof x === "object" ? "obj:" + (x.constructor ? x.constructor.name : "?") : typeof x));
    };
    walk(arr);
    return out;
};
async function build(v) {
    switch (v.k) {
        case "opaque": {
            const C = await cls(v.ty);
            nextPtr += 16;
            const o = new C(rt.internalConstructor, nextPtr, [], [], []);
            tags.set(o, v.label);
            return o;
        }
        case "none": return null;
        case "slice": return v.v;
        case "str": return v.v;
        case "struct": {
            const o = {};
            for (const [k, x] of Object.entries(v.fields)) o[k] = await build(x);
            const C = await cls(v.ty);
            // the declared parameter type is the plain `<Type>_obj`: half of the top-level struct arguments are passed that way
            if (v.plain) { await cls(v.ty); return o; }
            return C.fromFields(o);
        }
    }
    throw new Error("bad value kind " + v.k);
}
async function privateEdges(obj) {
    globalThis.__dvObj = obj;
    const ev = await post("Runtime.evaluate", { expression: "globalThis.__dvObj" });
    const props = await post("Runtime.getProperties", { objectId: ev.result.objectId, ownProperties: true });
    const out = {};
    for (const p of props.privateProperties || []) {
        if (!/Edge$/.test(p.name) || !p.value || !p.value.objectId) continue;
        const r = await post("Runtime.callFunctionOn", { objectId: p.value.objectId, functionDeclaration: "function() { return globalThis.__dvFlatten(this); }", returnByValue: true });
        out[p.name] = r.result.value;
    }
    return out;
}
const results = [];
for (const m of spec.methods) {
    tags.clear();
    stub.dvState.onCall = (k, args) => { if (k.endsWith("_destroy")) return undefined; nextPtr += 16; return nextPtr; };
    try {
        const C = await cls(m.cls);
        const args = [];
        for (const a of m.args) args.push(await build(a));
        let r;
        if (m.self) { const s = await build(m.self); r = s[m.name](...args); } else { r = C[m.name](...args); }
        if (r === null || r === undefined) { results.push({ ret: "null" }); continue; }
        if (typeof r !== "object") { results.push({ ret: typeof r }); continue; }
        const edges = await privateEdges(r);
        const all = [];
        for (const v of Object.values(edges)) for (const x of v) all.push(x);
        results.push({ ret: "object", edges, all });
    } catch (e) {
        results.push({ threw: String(e && e.stack ? e.stack.split("\n").slice(0, 3).join(" | ") : e) });
    }
}
session.disconnect();
console.log(JSON.stringify(results));
