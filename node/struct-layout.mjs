// usage: node struct-layout.mjs <js_dir> <spec.json>
// spec: {structs: [{name, shape, size, cases: [{value, expectBytesHex}], hasLifetime}], abi}
// prints JSON results per struct/case: {written: hex, writeError, read: tree, readError, into: [...]|ptr, intoAllocs, makeAllocs, takeArgs}
import fs from "fs";
import path from "path";
import { pathToFileURL } from "url";
const dir = process.argv[2];
const spec = JSON.parse(fs.readFileSync(process.argv[3], "utf8"));
const rt = await import(pathToFileURL(path.join(dir, "diplomat-runtime.mjs")).href);
const stub = await import(pathToFileURL(path.join(dir, "diplomat-wasm.mjs")).href);
const wasm = stub.default;
const mods = {};
async function cls(name) {
    if (!mods[name]) mods[name] = (await import(pathToFileURL(path.join(dir, name + ".mjs")).href))[name];
    return mods[name];
}
function f32FromBits(b) { const a = new Uint32Array([b >>> 0]); return new Float32Array(a.buffer)[0]; }
function f64FromBits(hi, lo) { const a = new Uint32Array([lo >>> 0, hi >>> 0]); return new Float64Array(a.buffer)[0]; }
function f32Bits(x) { const a = new Float32Array([x]); return new Uint32Array(a.buffer)[0]; }
function f64Bits(x) { const a = new Float64Array([x]); const u = new Uint32Array(a.buffer); return [u[1], u[0]]; }
async function build(v) {
    switch (v.k) {
        case "int": return v.v;
        case "big": return BigInt(v.v);
        case "f32": return f32FromBits(v.bits);
        case "f64": return f64FromBits(v.hi, v.lo);
        case "bool": return v.v;
        case "enum": { const C = await cls(v.ty); return v.asString ? v.variant : new C(v.variant); }
        case "struct": {
            const o = {};
            for (const [k, x] of Object.entries(v.fields)) { const b = await build(x); if (!(x.k === "none" && x.omit)) o[k] = b; }
            if (v.asObject) return o;
            const C = await cls(v.ty); return C.fromFields(o);
        }
        case "none": return null;
        case "opaque": { const C = await cls(v.ty); return new C(rt.internalConstructor, v.ptr, []); }
        case "slice": return v.elem === "i64" || v.elem === "u64" ? v.v.map((x) => BigInt(x)) : (v.elem === "bool" ? v.v.map((x) => !!x) : v.v);
        case "str": return v.v;
    }
    throw new Error("bad value kind " + v.k);
}
// shape: {k: "u8"|...|"enum"|"struct"|"opt"|"opaque"|"optopaque"|"slice"|"str", ...}
function dump(shape, x) {
    if (x === undefined) return { undef: true };
    switch (shape.k) {
        case "prim":
            if (shape.p === "i64" || shape.p === "u64") return { big: String(x), isBig: typeof x === "bigint" };
            if (shape.p === "f32") return { f32: f32Bits(x) };
            if (shape.p === "f64") return { f64: f64Bits(x) };
            if (shape.p === "bool") return { bool: x, isBool: typeof x === "boolean" };
            return { int: x };
        case "enum": return { variant: x === null ? null : x.value, ffi: x === null ? null : x.ffiValue };
        case "struct": { const o = {}; for (const [fn, fs_] of shape.fields) o[fn] = dump(fs_, x[fn]); return { fields: o }; }
        case "opt": return x === null || x === undefined ? { none: true } : { some: dump(shape.inner, x) };
        case "opaque": return { ptr: x === null ? null : x.ffiValue };
        case "optopaque": return x === null || x === undefined ? { none: true } : { some: { ptr: x.ffiValue } };
        case "slice": return { list: Array.from(x).map((e) => (typeof e === "bigint" ? String(e) : (typeof e === "boolean" ? (e ? 1 : 0) : e))) };
        case "str": return { str: x };
    }
    return { unknown: true };
}
function hex(buf, off, n) { return Buffer.from(new Uint8Array(buf, off, n)).toString("hex"); }
function ser(a) { return a.map((x) => (typeof x === "bigint" ? { big: String(x) } : (typeof x === "boolean" ? { bool: x } : (typeof x === "number" && !Number.isInteger(x) ? { num: String(x) } : x)))); }
const out = {};
for (const st of spec.structs) {
    const res = { cases: [] };
    out[st.name] = res;
    let C;
    try { C = await cls(st.name); } catch (e) { res.error = String(e); continue; }
    for (const c of st.cases) {
        const r = {};
        res.cases.push(r);
        // (a) write
        let inst = null;
        try {
            if (st.out) throw new Error("SKIP-OUT");
            inst = C.fromFields(await build(c.value));
            const ptr = wasm.diplomat_alloc(st.size + 64, 16);
            new Uint8Array(wasm.memory.buffer, ptr, st.size + 64).fill(0xEE);
            const arena = new rt.CleanupArena();
            inst._writeToArrayBuffer(wasm.memory.buffer, ptr, arena, { aAppendArray: [] });
            r.written = hex(wasm.memory.buffer, ptr, st.size + 64);
            // slices: dump the memory their (ptr,len) point to
            r.pointees = [];
            for (const sl of st.sliceLeaves) {
                const dv = new DataView(wasm.memory.buffer);
                const p = dv.getUint32(ptr + sl.off, true), n = dv.getUint32(ptr + sl.off + 4, true);
                r.pointees.push({ off: sl.off, ptr: p, len: n, bytes: p && n * sl.esize < 4096 ? hex(wasm.memory.buffer, p, n * sl.esize) : "" });
            }
        } catch (e) { if (String(e).includes("SKIP-OUT")) { r.writeSkipped = true; } else { r.writeError = String(e && e.stack || e).split("\n").slice(0, 3).join(" | "); } }
        // (b) read
        try {
            const ptr2 = wasm.diplomat_alloc(st.size + 64, 16);
            const bytes = Buffer.from(c.readBytesHex, "hex");
            new Uint8Array(wasm.memory.buffer, ptr2, bytes.length).set(bytes);
            // slice pointees for the read direction
            for (const pl of c.readPointees || []) {
                const p = wasm.diplomat_alloc(Math.max(1, pl.bytesHex.length / 2), 8);
                new Uint8Array(wasm.memory.buffer, p, pl.bytesHex.length / 2).set(Buffer.from(pl.bytesHex, "hex"));
                new DataView(wasm.memory.buffer).setUint32(ptr2 + pl.off, pl.len === 0 && pl.nullPtr ? 0 : p, true);
            }
            const back = st.wrapsPrimitive ? C._fromFFI(rt.internalConstructor, await build(c.readPrimitive), [], [], [])
                                           : C._fromFFI(rt.internalConstructor, ptr2, [], [], [], []);
            r.read = dump(st.shape, back);
        } catch (e) { r.readError = String(e && e.stack || e).split("\n").slice(0, 3).join(" | "); }
        // (c) _intoFFI
        if (inst) {
            try {
                stub.dvReset();
                const arena = new rt.CleanupArena();
                const x = inst._intoFFI(arena, { aAppendArray: [] }, false);
                r.into = Array.isArray(x) ? ser(x) : { ptr: typeof x === "bigint" ? String(x) : x };
                r.intoAllocs = stub.dvAllocs.slice();
                if (!Array.isArray(x) && !st.wrapsPrimitive) { r.intoBytes = hex(wasm.memory.buffer, x, st.size); }
            } catch (e) { r.intoError = String(e && e.stack || e).split("\n").slice(0, 3).join(" | "); }
            // (e) pass by value to an export
            try {
                stub.dvReset();
                C.dvTake(inst);
                const call = stub.dvCalls.find((k) => k[0] === st.name + "_dv_take");
                r.takeArgs = call ? ser(call[1]) : null;
                r.takeAllocs = stub.dvAllocs.slice();
            } catch (e) { r.takeError = String(e && e.stack || e).split("\n").slice(0, 3).join(" | "); }
            // (f) the struct as an optional parameter
            if (typeof C.dvTakeOpt === "function") {
                for (const [key, arg] of [["takeOptSome", inst], ["takeOptNone", null]]) {
                    try {
                        stub.dvReset();
                        let seen = null;
                        stub.dvState.onCall = (k, args) => {
                            if (k === st.name + "_dv_take_opt") {
                                const p = args[0];
                                seen = { args: ser(args), bytes: (typeof p === "number" && p > 0) ? hex(wasm.memory.buffer, p, st.size + 16) : "" };
                            }
                            return undefined;
                        };
                        C.dvTakeOpt(arg);
                        stub.dvState.onCall = null;
                        r[key] = seen ? Object.assign(seen, { allocs: stub.dvAllocs.slice() }) : { error: "the export was not called" };
                    } catch (e) { stub.dvState.onCall = null; r[key] = { error: String(e && e.stack || e).split("\n").slice(0, 3).join(" | ") }; }
                }
            }
        }
    }
    // (d) receive buffer of a method returning the struct
    try {
        stub.dvReset();
        try { C.dvMake(); } catch (e) { res.makeThrow = String(e).split("\n")[0]; }
        res.makeAllocs = stub.dvAllocs.slice();
        const call = stub.dvCalls.find((k) => k[0] === st.name + "_dv_make");
        res.makeArgs = call ? ser(call[1]) : null;
    } catch (e) { res.makeError = String(e); }
}
// (g) Result / Option returns through a receive buffer
out.__returns = [];
const Op = await cls("Op");
for (const rs of spec.returns || []) {
    const r = {};
    out.__returns.push(r);
    try {
        const run = (fill) => {
            stub.dvReset();
            stub.dvState.onCall = (k, args) => { if (k === rs.sym) { fill(args[0]); } return undefined; };
            let outcome;
            try { const v = Op[rs.method](); outcome = (v === null || v === undefined) ? "null" : "object"; }
            catch (e) { outcome = (e && e.cause !== undefined) ? "threw-with-cause" : "threw:" + String(e).split("\n")[0].slice(0, 120); }
            stub.dvState.onCall = null;
            return outcome;
        };
        r.okRun = run((p) => {
            const m = new Uint8Array(wasm.memory.buffer, p, rs.total); m.fill(0);
            if (rs.okBytesHex) m.set(Buffer.from(rs.okBytesHex, "hex")); m[rs.flagOff] = 1;
        });
        r.allocs = stub.dvAllocs.slice();
        r.errRun = run((p) => {
            const m = new Uint8Array(wasm.memory.buffer, p, rs.total); m.fill(0);
            if (rs.errBytesHex) m.set(Buffer.from(rs.errBytesHex, "hex"));
            for (let i = rs.maxPayload; i < rs.flagOff; i++) m[i] = 1;    // padding inside the union
            m[rs.flagOff] = 0;
        });
    } catch (e) { r.error = String(e && e.stack || e).split("\n").slice(0, 3).join(" | "); }
}
console.log(JSON.stringify(out));
