// usage: node enum-values.mjs <js_dir> <spec.json>   spec: {"Enum": ["Variant", ...]}
// prints JSON {Enum: {Variant: {ffi, back, viaWasm}}}
import fs from "fs";
import path from "path";
import { pathToFileURL } from "url";
const dir = process.argv[2];
const spec = JSON.parse(fs.readFileSync(process.argv[3], "utf8"));
const rt = await import(pathToFileURL(path.join(dir, "diplomat-runtime.mjs")).href);
const stub = await import(pathToFileURL(path.join(dir, "diplomat-wasm.mjs")).href);
stub.dvState.onCall = (name, args) => args[0];   // every export is the identity on its first argument
const out = {};
for (const [en, variants] of Object.entries(spec)) {
    out[en] = {};
    let mod;
    try { mod = await import(pathToFileURL(path.join(dir, en + ".mjs")).href); }
    catch (e) { out[en].__error = String(e); continue; }
    const cls = mod[en];
    for (const v of variants) {
        const r = {};
        try {
            const obj = cls[v];
            r.ffi = obj === undefined ? null : obj.ffiValue;
            r.name = obj === undefined ? null : obj.value;
            // the from-Rust path used by generated methods: new E(internalConstructor, <number>)
            if (obj !== undefined) {
                const back = new cls(rt.internalConstructor, obj.ffiValue);
                r.back = back === undefined ? null : back.value;
                if (typeof obj.ident === "function") { const b2 = obj.ident(); r.viaWasm = b2 === undefined ? null : b2.value; }
                // the path used for enums that come back through linear memory (struct fields, Option<Enum>, Result payloads):
                // Rust stores the discriminant as an i32, the binding reads it with enumDiscriminant and constructs the variant
                const ptr = stub.default.diplomat_alloc(4, 4);
                new DataView(stub.default.memory.buffer).setInt32(ptr, obj.ffiValue, true);
                const disc = rt.enumDiscriminant(stub.default, ptr);
                r.memDisc = disc;
                const viaMem = new cls(rt.internalConstructor, disc);
                r.viaMemory = viaMem === undefined || viaMem === null ? null : (viaMem.value === undefined ? null : viaMem.value);
            }
        } catch (e) { r.error = String(e); }
        out[en][v] = r;
    }
}
console.log(JSON.stringify(out));
