// usage: node import-all.mjs <dir> : imports every generated .mjs module (ESM linking checks that every imported
// file exists and every imported name is exported), then index.mjs.
import fs from "fs";
import path from "path";
import { pathToFileURL } from "url";
const dir = process.argv[2];
let failed = 0;
const files = [];
function walk(d) { for (const f of fs.readdirSync(d)) { const p = path.join(d, f); if (fs.statSync(p).isDirectory()) walk(p); else if (f.endsWith(".mjs")) files.push(p); } }
walk(dir);
for (const f of files.sort()) {
    try { await import(pathToFileURL(f).href); }
    catch (e) { failed++; console.log("IMPORT-FAIL " + path.relative(dir, f) + " :: " + String(e && e.message || e).split("\n")[0]); }
}
console.log("IMPORTED " + files.length + " modules, " + failed + " failed");
process.exit(failed ? 1 : 0);
