// Replacement for the generated diplomat-wasm.mjs: a real WebAssembly.Memory, a bump diplomat_alloc and a
// recording Proxy standing in for every wasm export.
const memory = new WebAssembly.Memory({ initial: 64 });
let bump = 4096;
export const dvCalls = [];
export const dvAllocs = [];
export const dvState = { returns: {}, onCall: null };
const base = {
    memory,
    diplomat_alloc(size, align) {
        dvAllocs.push([size, align]);
        align = Math.max(1, align);
        bump = Math.ceil(bump / align) * align;
        const p = bump;
        bump += Math.max(1, size);
        if (bump > memory.buffer.byteLength) { memory.grow(Math.ceil((bump - memory.buffer.byteLength) / 65536) + 1); }
        return p;
    },
    diplomat_free(ptr, size, align) { },
    diplomat_init() { },
};
export function dvReset() { dvCalls.length = 0; dvAllocs.length = 0; }
export default new Proxy(base, {
    get(t, k) {
        if (k in t) return t[k];
        if (typeof k !== "string") return undefined;
        return (...args) => {
            dvCalls.push([k, args]);
            if (dvState.onCall) { const r = dvState.onCall(k, args); if (r !== undefined) return r; }
            return (k in dvState.returns) ? dvState.returns[k] : 0;
        };
    },
    has(t, k) { return true; },
});
