#![no_main]
use libfuzzer_sys::fuzz_target;
fuzz_target!(|data: &[u8]| {
    rtcheck::common::freeze();
    let mut u = arbitrary::Unstructured::new(data);
    let case = rtcheck::decode::c12_case(&mut u);
    // exactly sized buffers: ASan sees any byte past `cap`
    if let Err(m) = rtcheck::c12::check(&case, true) {
        panic!("C12 violation: {}\ncase: {}", m, serde_json_case(&case));
    }
});
fn serde_json_case(c: &rtcheck::c12::Case) -> String { format!("{:?}", c) }
