#![no_main]
use libfuzzer_sys::fuzz_target;
fuzz_target!(|data: &[u8]| {
    rtcheck::common::freeze();
    let case = rtcheck::c16::Utf8Case { bytes: data.to_vec() };
    if let Err(m) = rtcheck::c16::check_utf8(&case) {
        panic!("C16 violation: {}", m);
    }
});
