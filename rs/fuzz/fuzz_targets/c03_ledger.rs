#![no_main]
use libfuzzer_sys::fuzz_target;
fuzz_target!(|data: &[u8]| {
    rtcheck::common::freeze();
    let mut u = arbitrary::Unstructured::new(data);
    let case = rtcheck::decode::c03_case(&mut u);
    rtcheck::c03::set_heap(true);
    if let Err(m) = rtcheck::c03::check(&case) {
        panic!("C03 violation: {}\ncase: {:?}", m, case);
    }
});
