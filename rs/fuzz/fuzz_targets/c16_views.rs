#![no_main]
use libfuzzer_sys::fuzz_target;
fuzz_target!(|data: &[u8]| {
    rtcheck::common::freeze();
    let mut u = arbitrary::Unstructured::new(data);
    let case = rtcheck::decode::c16_case(&mut u);
    if let Err(m) = rtcheck::c16::check(&case) {
        panic!("C16 violation: {}\ncase: {:?}", m, case);
    }
});
