fn main(){}
