//! dv-probe: exposes the public diplomat_core API in-process.
//! stdin: one JSON request per line {"id", "src", "support": {flag: bool}, "backend": str, "unsafe_refs": bool, "borrow": bool}
//! stdout: one JSON reply per line {"id", "status": "ok"|"errors"|"panic", "errors": [[ctx,msg]], "panic": msg, "borrow": {...}}
use diplomat_core::hir::borrowing_param::LifetimeEdgeKind;
use diplomat_core::hir::{self, BackendAttrSupport, BasicAttributeValidator, LoweringConfig, TypeContext};
use serde_json::{json, Value};
use std::io::{BufRead, Write};
use std::panic::{catch_unwind, AssertUnwindSafe};

fn support_from(v: &Value) -> BackendAttrSupport {
    let mut a = BackendAttrSupport::default();
    let g = |k: &str| v.get(k).and_then(|x| x.as_bool()).unwrap_or(false);
    a.namespacing = g("namespacing");
    a.memory_sharing = g("memory_sharing");
    a.non_exhaustive_structs = g("non_exhaustive_structs");
    a.method_overloading = g("method_overloading");
    a.utf8_strings = g("utf8_strings");
    a.utf16_strings = g("utf16_strings");
    a.static_slices = g("static_slices");
    a.constructors = g("constructors");
    a.named_constructors = g("named_constructors");
    a.fallible_constructors = g("fallible_constructors");
    a.accessors = g("accessors");
    a.static_accessors = g("static_accessors");
    a.stringifiers = g("stringifiers");
    a.comparators = g("comparators");
    a.iterators = g("iterators");
    a.iterables = g("iterables");
    a.indexing = g("indexing");
    a.arithmetic = g("arithmetic");
    a.option = g("option");
    a.callbacks = g("callbacks");
    a.traits = g("traits");
    a.custom_errors = g("custom_errors");
    a.traits_are_send = g("traits_are_send");
    a.traits_are_sync = g("traits_are_sync");
    a
}

fn borrow_info(tcx: &TypeContext) -> Value {
    let mut out = serde_json::Map::new();
    for (_id, ty) in tcx.all_types() {
        for m in ty.methods() {
            let key = format!("{}::{}", ty.name().as_str(), m.name.as_str());
            let r = catch_unwind(AssertUnwindSafe(|| {
                let mut visitor = m.borrowing_param_visitor(tcx, false);
                let mut kinds = serde_json::Map::new();
                if let Some(s) = &m.param_self {
                    let info = visitor.visit_param(&s.ty.clone().into(), "self");
                    kinds.insert("self".into(), json!(format!("{:?}", info).split('(').next().unwrap_or("").to_string()));
                }
                for p in &m.params {
                    let info = visitor.visit_param(&p.ty, p.name.as_str());
                    kinds.insert(p.name.as_str().into(), json!(format!("{:?}", info).split('(').next().unwrap_or("").to_string()));
                }
                let mut map = serde_json::Map::new();
                for (lt, info) in visitor.borrow_map() {
                    let name = m.lifetime_env.fmt_lifetime(lt).to_string();
                    let mut edges = vec![];
                    for e in &info.incoming_edges {
                        let k = match e.kind {
                            LifetimeEdgeKind::OpaqueParam => json!({"param": e.param_name, "kind": "opaque"}),
                            LifetimeEdgeKind::SliceParam => json!({"param": e.param_name, "kind": "slice"}),
                            LifetimeEdgeKind::StructLifetime(env, def_lt, is_opt) => {
                                json!({"param": e.param_name, "kind": "struct", "slot": env.fmt_lifetime(def_lt).to_string(), "optional": is_opt})
                            }
                            _ => json!({"param": e.param_name, "kind": "unknown"}),
                        };
                        edges.push(k);
                    }
                    let longer: Vec<String> = info.all_longer_lifetimes.iter().map(|l| m.lifetime_env.fmt_lifetime(*l).to_string()).collect();
                    map.insert(name, json!({"edges": edges, "longer": longer}));
                }
                json!({"map": map, "param_kinds": kinds})
            }));
            match r {
                Ok(v) => {
                    out.insert(key, v);
                }
                Err(e) => {
                    let msg = e.downcast_ref::<String>().cloned().or_else(|| e.downcast_ref::<&str>().map(|s| s.to_string())).unwrap_or_default();
                    out.insert(key, json!({"panic": msg}));
                }
            }
        }
    }
    Value::Object(out)
}

fn handle(req: &Value) -> Value {
    let id = req["id"].clone();
    let src = req["src"].as_str().unwrap_or("");
    let r = catch_unwind(AssertUnwindSafe(|| {
        let file: syn::File = match syn::parse_str(src) {
            Ok(f) => f,
            Err(e) => return json!({"id": id, "status": "syn-error", "panic": e.to_string()}),
        };
        let mut v = BasicAttributeValidator::new(req["backend"].as_str().unwrap_or("dvprobe"));
        v.support = support_from(&req["support"]);
        if let Some(others) = req["other_names"].as_array() {
            v.other_backend_names = others.iter().filter_map(|x| x.as_str().map(|s| s.to_string())).collect();
        }
        let mut cfg = LoweringConfig::default();
        cfg.unsafe_references_in_callbacks = req["unsafe_refs"].as_bool().unwrap_or(false);
        match TypeContext::from_syn(&file, cfg, v) {
            Ok(tcx) => {
                let mut rep = json!({"id": id, "status": "ok"});
                if req["borrow"].as_bool().unwrap_or(false) {
                    rep["borrow"] = borrow_info(&tcx);
                }
                if req["list"].as_bool().unwrap_or(false) {
                    let mut items = vec![];
                    for (_i, ty) in tcx.all_types() {
                        let ms: Vec<String> = ty.methods().iter().map(|m| m.name.as_str().to_string()).collect();
                        items.push(json!({"name": ty.name().as_str(), "disabled": ty.attrs().disable, "methods": ms}));
                    }
                    rep["types"] = json!(items);
                }
                rep
            }
            Err(errs) => {
                let es: Vec<Value> = errs.iter().map(|(c, e)| json!([c.to_string(), e.to_string()])).collect();
                json!({"id": id, "status": "errors", "errors": es})
            }
        }
    }));
    match r {
        Ok(v) => v,
        Err(e) => {
            let msg = e.downcast_ref::<String>().cloned().or_else(|| e.downcast_ref::<&str>().map(|s| s.to_string())).unwrap_or_default();
            json!({"id": req["id"], "status": "panic", "panic": msg})
        }
    }
}

fn main() {
    std::panic::set_hook(Box::new(|_| {}));
    let stdin = std::io::stdin();
    let stdout = std::io::stdout();
    let mut out = stdout.lock();
    for line in stdin.lock().lines() {
        let line = match line {
            Ok(l) => l,
            Err(_) => break,
        };
        if line.trim().is_empty() {
            continue;
        }
        let req: Value = match serde_json::from_str(&line) {
            Ok(v) => v,
            Err(e) => {
                writeln!(out, "{}", json!({"status": "bad-request", "panic": e.to_string()})).ok();
                out.flush().ok();
                continue;
            }
        };
        let rep = handle(&req);
        writeln!(out, "{}", rep).ok();
        out.flush().ok();
    }
    let _ = hir::LoweringConfig::default();
}
