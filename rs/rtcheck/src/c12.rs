//! C12: DiplomatWrite is exact and never overruns, for every chunk sequence and grow-outcome pattern.
//! Model-based: a Vec<u8> + sticky failure flag; the real writer is observed through the documented
//! #[repr(C)] layout (the one capi.h tells C callers to fill in).
use crate::common::*;
use core::ffi::c_void;
use core::fmt::Write;
use diplomat_runtime::DiplomatWrite;
use proptest::prelude::*;
use serde::{Deserialize, Serialize};
use std::collections::VecDeque;

#[repr(C)]
pub struct WriteMirror {
    pub context: *mut c_void,
    pub buf: *mut u8,
    pub len: usize,
    pub cap: usize,
    pub grow_failed: bool,
    pub flush: extern "C" fn(*mut WriteMirror),
    pub grow: extern "C" fn(*mut WriteMirror, usize) -> bool,
}

extern "C" {
    // exported by diplomat-runtime; declared here with the documented C signatures
    #[cfg(not(miri))]
    fn diplomat_simple_write(buf: *mut u8, buf_size: usize) -> WriteMirror;
    #[cfg(miri)]
    fn diplomat_simple_write(buf: *mut u8, buf_size: usize) -> diplomat_runtime::DiplomatWrite;
    fn diplomat_buffer_write_get_bytes(this: *const WriteMirror) -> *mut u8;
    fn diplomat_buffer_write_len(this: *const WriteMirror) -> usize;
}

#[derive(Clone, Debug, Serialize, Deserialize)]
pub enum WOp {
    Str(String),
    Char(char),
    Fmt2(String, String),
    Fmt3(String, u32, String),
    Flush,
}

#[derive(Clone, Debug, Serialize, Deserialize)]
pub enum Kind {
    /// caller-supplied writer: initial capacity, grow outcomes (Some(slack) = succeed with that much extra, None = fail)
    Caller { cap: usize, outcomes: Vec<Option<usize>> },
    /// diplomat_buffer_write_create(cap)
    Owned { cap: usize },
    /// diplomat_simple_write over a buffer of exactly buf_size bytes
    Fixed { buf_size: usize },
}

#[derive(Clone, Debug, Serialize, Deserialize)]
pub struct Case {
    pub kind: Kind,
    pub ops: Vec<WOp>,
}

const PRE: usize = 16;
const POST: usize = 2048;
const CANARY: u8 = 0xA5;

/// A heap block with canaries on both sides (or exactly sized when `exact`, for ASan/miri).
struct Guarded {
    base: *mut u8,
    total: usize,
    cap: usize,
    exact: bool,
}
impl Guarded {
    fn new(cap: usize, exact: bool) -> Guarded {
        let (pre, post) = if exact { (0, 0) } else { (PRE, POST) };
        let total = pre + cap + post;
        let layout = std::alloc::Layout::from_size_align(total.max(1), 1).unwrap();
        let base = unsafe { std::alloc::alloc(layout) };
        assert!(!base.is_null());
        if !exact {
            unsafe {
                std::ptr::write_bytes(base, CANARY, pre);
                std::ptr::write_bytes(base.add(pre), 0xEE, cap);
                std::ptr::write_bytes(base.add(pre + cap), CANARY, post);
            }
        } else {
            unsafe { std::ptr::write_bytes(base, 0xEE, cap) };
        }
        Guarded { base, total, cap, exact }
    }
    fn ptr(&self) -> *mut u8 {
        unsafe { self.base.add(if self.exact { 0 } else { PRE }) }
    }
    fn canaries_ok(&self) -> bool {
        if self.exact {
            return true;
        }
        unsafe {
            let pre = std::slice::from_raw_parts(self.base, PRE);
            let post = std::slice::from_raw_parts(self.base.add(PRE + self.cap), POST);
            pre.iter().all(|b| *b == CANARY) && post.iter().all(|b| *b == CANARY)
        }
    }
}
impl Drop for Guarded {
    fn drop(&mut self) {
        let layout = std::alloc::Layout::from_size_align(self.total.max(1), 1).unwrap();
        unsafe { std::alloc::dealloc(self.base, layout) }
    }
}

struct Ctx {
    outcomes: VecDeque<Option<usize>>,
    /// (requested, len at call, cap at call, granted?)
    grow_log: Vec<(usize, usize, usize, bool)>,
    flushes: usize,
    block: Guarded,
    exact: bool,
    dead_blocks_ok: bool,
}

extern "C" fn caller_flush(this: *mut WriteMirror) {
    unsafe {
        let ctx = &mut *((*this).context as *mut Ctx);
        ctx.flushes += 1;
    }
}

extern "C" fn caller_grow(this: *mut WriteMirror, requested: usize) -> bool {
    unsafe {
        let ctx = &mut *((*this).context as *mut Ctx);
        let outcome = ctx.outcomes.pop_front().unwrap_or(Some(0));
        let (len, cap) = ((*this).len, (*this).cap);
        match outcome {
            None => {
                ctx.grow_log.push((requested, len, cap, false));
                false
            }
            Some(slack) => {
                ctx.grow_log.push((requested, len, cap, true));
                let new_cap = requested.max(cap) + slack;
                let nb = Guarded::new(new_cap, ctx.exact);
                std::ptr::copy_nonoverlapping((*this).buf, nb.ptr(), len.min(cap));
                let old = std::mem::replace(&mut ctx.block, nb);
                if !old.canaries_ok() {
                    ctx.dead_blocks_ok = false;
                }
                drop(old);
                (*this).buf = ctx.block.ptr();
                (*this).cap = new_cap;
                true
            }
        }
    }
}

fn chunks_of(op: &WOp) -> Vec<Vec<u8>> {
    match op {
        WOp::Str(s) => vec![s.as_bytes().to_vec()],
        WOp::Char(c) => vec![c.to_string().into_bytes()],
        WOp::Fmt2(a, b) => vec![a.as_bytes().to_vec(), b"-".to_vec(), b.as_bytes().to_vec()],
        WOp::Fmt3(a, n, b) => vec![
            b"<".to_vec(),
            a.as_bytes().to_vec(),
            b"|".to_vec(),
            n.to_string().into_bytes(),
            b"|".to_vec(),
            b.as_bytes().to_vec(),
            b">".to_vec(),
        ],
        WOp::Flush => vec![],
    }
}

fn apply(w: &mut DiplomatWrite, op: &WOp) -> Result<(), String> {
    let r = match op {
        WOp::Str(s) => w.write_str(s),
        WOp::Char(c) => w.write_char(*c),
        WOp::Fmt2(a, b) => write!(w, "{}-{}", a, b),
        WOp::Fmt3(a, n, b) => write!(w, "<{}|{}|{}>", a, n, b),
        WOp::Flush => {
            w.flush();
            Ok(())
        }
    };
    r.map_err(|_| "write returned fmt::Error (documented: always Ok)".to_string())
}

struct Model {
    content: Vec<u8>,
    failed: bool,
    cap: usize,
    /// expected grow requests: minimal requested size
    grows: Vec<usize>,
}

pub fn check(case: &Case, exact: bool) -> Result<(), String> {
    if std::mem::size_of::<WriteMirror>() != std::mem::size_of::<DiplomatWrite>() {
        eprintln!("INCONCLUSIVE C12: DiplomatWrite no longer has the documented 7-field layout");
        std::process::exit(2);
    }
    let mut saw_ok_grow = false;
    let mut saw_fail = false;
    let mut write_after_fail = false;
    let mut fail_after_ok_grow = false;
    let mut multi = false;
    match &case.kind {
        Kind::Caller { cap, outcomes } => {
            let mut ctx = Box::new(Ctx {
                outcomes: outcomes.iter().cloned().collect(),
                grow_log: vec![],
                flushes: 0,
                block: Guarded::new(*cap, exact),
                exact,
                dead_blocks_ok: true,
            });
            let mut mirror = WriteMirror {
                context: &mut *ctx as *mut Ctx as *mut c_void,
                buf: ctx.block.ptr(),
                len: 0,
                cap: *cap,
                grow_failed: false,
                flush: caller_flush,
                grow: caller_grow,
            };
            let mp: *mut WriteMirror = &mut mirror;
            let mut model = Model { content: vec![], failed: false, cap: *cap, grows: vec![] };
            let mut pending: VecDeque<Option<usize>> = outcomes.iter().cloned().collect();
            let mut flushes = 0usize;
            let mut consumed = 0usize;
            for (i, op) in case.ops.iter().enumerate() {
                if matches!(op, WOp::Flush) {
                    flushes += 1;
                }
                // real step
                let w: &mut DiplomatWrite = unsafe { &mut *(mp as *mut DiplomatWrite) };
                apply(w, op).map_err(|m| format!("op {}: {}", i, m))?;
                // model step, driven by the grow calls the writer actually made
                {
                    let log = unsafe { &(*((*mp).context as *const Ctx)).grow_log };
                    let at = format!("caller-supplied writer, op {} ({:?})", i, op);
                    for ch in chunks_of(op) {
                        if ch.iter().any(|b| *b >= 0x80) {
                            multi = true;
                        }
                        if model.failed {
                            if !ch.is_empty() {
                                write_after_fail = true;
                            }
                            continue;
                        }
                        let needed = model.content.len() + ch.len();
                        if needed > model.cap {
                            model.grows.push(needed);
                            let Some((req, len_at, cap_at, granted)) = log.get(consumed).cloned() else {
                                return Err(format!("{}: len+chunk = {} > cap {} but grow() was not called", at, needed, model.cap));
                            };
                            consumed += 1;
                            if req < needed {
                                return Err(format!("{}: grow asked for {} < needed {}", at, req, needed));
                            }
                            if len_at != model.content.len() || cap_at != model.cap {
                                return Err(format!("{}: at grow() the writer had len {} cap {}, model has len {} cap {}", at, len_at, cap_at, model.content.len(), model.cap));
                            }
                            let outcome = pending.pop_front().unwrap_or(Some(0));
                            if granted != outcome.is_some() {
                                return Err(format!("{}: harness outcome mismatch", at));
                            }
                            match outcome {
                                None => {
                                    model.failed = true;
                                    saw_fail = true;
                                    if saw_ok_grow {
                                        fail_after_ok_grow = true;
                                    }
                                    continue;
                                }
                                Some(slack) => {
                                    saw_ok_grow = true;
                                    model.cap = req.max(model.cap) + slack;
                                }
                            }
                        }
                        model.content.extend_from_slice(&ch);
                    }
                    if log.len() != consumed {
                        return Err(format!(
                            "{}: grow() was called {} times but only {} calls were necessary (grow is requested exactly when len+chunk > cap and no earlier growth failed); log (requested,len,cap,granted) = {:?}",
                            at, log.len(), consumed, log
                        ));
                    }
                }
                // observe
                let m = unsafe { &*mp };
                let ctxr = unsafe { &*(m.context as *const Ctx) };
                let at = format!("caller-supplied writer, after op {} ({:?})", i, op);
                if !ctxr.block.canaries_ok() || !ctxr.dead_blocks_ok {
                    return Err(format!("{}: a byte outside [buf, buf+cap) was written", at));
                }
                if m.buf != ctxr.block.ptr() {
                    return Err(format!("{}: buf pointer changed by the writer", at));
                }
                if m.len > m.cap {
                    return Err(format!("{}: len {} > cap {}", at, m.len, m.cap));
                }
                if m.grow_failed != model.failed {
                    return Err(format!("{}: grow_failed={} model.failed={}", at, m.grow_failed, model.failed));
                }
                let got = unsafe { std::slice::from_raw_parts(m.buf, m.len) };
                if got != &model.content[..] {
                    return Err(format!(
                        "{}: buffer holds {:?} (len {}), expected {:?} (len {})",
                        at, String::from_utf8_lossy(got), got.len(),
                        String::from_utf8_lossy(&model.content), model.content.len()
                    ));
                }
                if ctxr.flushes != flushes {
                    return Err(format!("{}: flush callback ran {} times, expected {}", at, ctxr.flushes, flushes));
                }
                // accessors only read fields; a C caller may call them on any DiplomatWrite
                let (ab, al) = unsafe { (diplomat_buffer_write_get_bytes(mp), diplomat_buffer_write_len(mp)) };
                if model.failed {
                    if !ab.is_null() || al != 0 {
                        return Err(format!("{}: accessors returned ({:?},{}) after a failed grow, expected (NULL,0)", at, ab, al));
                    }
                } else if ab != m.buf || al != model.content.len() {
                    return Err(format!("{}: accessors returned ({:?},{}), expected ({:?},{})", at, ab, al, m.buf, model.content.len()));
                }
            }
            drop(ctx);
        }
        Kind::Owned { cap } => {
            let wp = diplomat_runtime::diplomat_buffer_write_create(*cap);
            let mp = wp as *mut WriteMirror;
            let mut content: Vec<u8> = vec![];
            for (i, op) in case.ops.iter().enumerate() {
                for ch in chunks_of(op) {
                    if ch.iter().any(|b| *b >= 0x80) {
                        multi = true;
                    }
                    if content.len() + ch.len() > *cap {
                        saw_ok_grow = true;
                    }
                    content.extend_from_slice(&ch);
                }
                let w: &mut DiplomatWrite = unsafe { &mut *wp };
                apply(w, op).map_err(|m| format!("op {}: {}", i, m))?;
                let m = unsafe { &*mp };
                let at = format!("Rust-owned writer (cap {}), after op {} ({:?})", cap, i, op);
                if m.len > m.cap {
                    return Err(format!("{}: len {} > cap {}", at, m.len, m.cap));
                }
                if m.grow_failed {
                    return Err(format!("{}: grow_failed set although Rust-side growth cannot fail", at));
                }
                let (ab, al) = unsafe { (diplomat_buffer_write_get_bytes(mp), diplomat_buffer_write_len(mp)) };
                if al != content.len() {
                    return Err(format!("{}: diplomat_buffer_write_len = {}, expected {}", at, al, content.len()));
                }
                if ab.is_null() {
                    return Err(format!("{}: diplomat_buffer_write_get_bytes = NULL without failure", at));
                }
                let got = unsafe { std::slice::from_raw_parts(ab, al) };
                if got != &content[..] {
                    return Err(format!(
                        "{}: buffer holds {:?}, expected {:?}",
                        at, String::from_utf8_lossy(got), String::from_utf8_lossy(&content)
                    ));
                }
            }
            unsafe { diplomat_runtime::diplomat_buffer_write_destroy(wp) };
        }
        Kind::Fixed { buf_size } => {
            let block = Guarded::new(*buf_size, exact);
            // Natively the function is called through its documented C signature (returning the repr(C) mirror), as a foreign
            // caller would. Miri insists on identical Rust types for a by-value return, so there the Rust item is called
            // and the (layout-identical) result reinterpreted.
            #[cfg(not(miri))]
            let mut mirror = unsafe { diplomat_simple_write(block.ptr(), *buf_size) };
            #[cfg(miri)]
            let mut mirror: WriteMirror = unsafe { std::mem::transmute(diplomat_simple_write(block.ptr(), *buf_size)) };
            let mp: *mut WriteMirror = &mut mirror;
            let usable = *buf_size - 1;
            let mut content: Vec<u8> = vec![];
            let mut failed = false;
            for (i, op) in case.ops.iter().enumerate() {
                for ch in chunks_of(op) {
                    if ch.iter().any(|b| *b >= 0x80) {
                        multi = true;
                    }
                    if failed {
                        if !ch.is_empty() {
                            write_after_fail = true;
                        }
                        continue;
                    }
                    if content.len() + ch.len() > usable {
                        failed = true;
                        saw_fail = true;
                        continue;
                    }
                    content.extend_from_slice(&ch);
                }
                let w: &mut DiplomatWrite = unsafe { &mut *(mp as *mut DiplomatWrite) };
                apply(w, op).map_err(|m| format!("op {}: {}", i, m))?;
                let m = unsafe { &*mp };
                let at = format!("fixed writer (buf_size {}), after op {} ({:?})", buf_size, i, op);
                if !block.canaries_ok() {
                    return Err(format!("{}: a byte outside the caller's buffer was written", at));
                }
                if m.buf != block.ptr() {
                    return Err(format!("{}: buf pointer changed", at));
                }
                if m.len >= *buf_size {
                    return Err(format!("{}: len {} leaves no room for the NUL inside buf_size {}", at, m.len, buf_size));
                }
                if m.grow_failed != failed {
                    return Err(format!("{}: grow_failed={} model.failed={} (a string of buf_size-1 bytes fits; one more does not)", at, m.grow_failed, failed));
                }
                let got = unsafe { std::slice::from_raw_parts(m.buf, m.len) };
                if got != &content[..] {
                    return Err(format!(
                        "{}: buffer holds {:?}, expected {:?}",
                        at, String::from_utf8_lossy(got), String::from_utf8_lossy(&content)
                    ));
                }
                if matches!(op, WOp::Flush) {
                    let nul = unsafe { *m.buf.add(m.len) };
                    if nul != 0 {
                        return Err(format!("{}: flush did not NUL-terminate at buf[len]", at));
                    }
                }
            }
            drop(block);
        }
    }
    if saw_ok_grow {
        label("successful-grow");
    }
    if saw_fail {
        label("failed-grow");
    }
    if write_after_fail {
        label("write-after-failure");
    }
    if fail_after_ok_grow {
        label("grow-ok-then-grow-fail");
    }
    if multi {
        label("multibyte-chunk");
    }
    match &case.kind {
        Kind::Caller { .. } => label("kind:caller"),
        Kind::Owned { .. } => label("kind:owned"),
        Kind::Fixed { .. } => label("kind:fixed"),
    }
    let nontrivial = match &case.kind {
        Kind::Caller { .. } => fail_after_ok_grow && write_after_fail,
        Kind::Owned { .. } => saw_ok_grow && case.ops.len() >= 2,
        Kind::Fixed { .. } => saw_fail && write_after_fail,
    };
    record(case, nontrivial);
    Ok(())
}

fn chunk() -> impl Strategy<Value = String> {
    prop_oneof![
        1 => Just(String::new()),
        4 => "[a-z]{1,6}",
        3 => "[a-zé€😀ß]{1,5}",
        2 => "[ -~]{8,40}",
        1 => "[a-z€]{60,300}",
    ]
}

fn op() -> impl Strategy<Value = WOp> {
    prop_oneof![
        8 => chunk().prop_map(WOp::Str),
        2 => any::<char>().prop_map(WOp::Char),
        2 => (chunk(), chunk()).prop_map(|(a, b)| WOp::Fmt2(a, b)),
        1 => (chunk(), any::<u32>(), chunk()).prop_map(|(a, n, b)| WOp::Fmt3(a, n, b)),
        2 => Just(WOp::Flush),
    ]
}

fn cap() -> impl Strategy<Value = usize> {
    prop_oneof![4 => 1usize..12, 3 => 12usize..80, 1 => 80usize..600]
}

pub fn strategy() -> impl Strategy<Value = Case> {
    let outcome = prop_oneof![
        3 => prop_oneof![Just(0usize), Just(1), 0usize..16, 16usize..200].prop_map(Some),
        1 => Just(None),
    ];
    let kind = prop_oneof![
        5 => (cap(), proptest::collection::vec(outcome, 0..7)).prop_map(|(cap, outcomes)| Kind::Caller { cap, outcomes }),
        2 => prop_oneof![Just(0usize), cap()].prop_map(|cap| Kind::Owned { cap }),
        3 => cap().prop_map(|buf_size| Kind::Fixed { buf_size }),
    ];
    (kind, proptest::collection::vec(op(), 0..12)).prop_map(|(kind, ops)| Case { kind, ops })
}

pub fn main(args: &Args) -> i32 {
    let exact = args.extra.get("exact").map(|v| v == "1").unwrap_or(false);
    if let Some(p) = &args.replay {
        let (_sub, case): (String, Case) = replay_case(p);
        return match check(&case, exact).and_then(|_| check(&case, !exact)) {
            Ok(()) => {
                println!("replay ok (no violation)");
                0
            }
            Err(m) => {
                println!("RT-VIOLATION property=C12 replay={} :: {}", p, m);
                1
            }
        };
    }
    let o = run_prop("C12", "write-model", args, 12, strategy(), |c: &Case| check(c, exact));
    write_summary("C12", args, &[o], serde_json::json!({"exact_buffers": exact}))
}
