pub mod c03;
pub mod c12;
pub mod c16;
pub mod common;
pub mod decode;
