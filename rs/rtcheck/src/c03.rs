//! C03 layer R: the runtime's FFI-safe result / option / owned-slice / callback types drop their
//! payload exactly once under any sequence of create / convert / clone / borrow / drop operations.
use crate::c16::ViewMirror;
use crate::common::*;
use core::ffi::c_void;
use diplomat_runtime::*;
use proptest::prelude::*;
use serde::{Deserialize, Serialize};
use std::cell::RefCell;
use std::collections::BTreeMap;

extern "C" {
    fn diplomat_alloc(size: usize, align: usize) -> *mut u8;
    fn diplomat_free(ptr: *mut u8, size: usize, align: usize);
}

thread_local! {
    static LEDGER: RefCell<BTreeMap<u64, u32>> = RefCell::new(BTreeMap::new());
    static NEXT: RefCell<u64> = RefCell::new(1);
    static HEAP: RefCell<bool> = RefCell::new(false);
    static CB_DESTROYED: RefCell<BTreeMap<u64, u32>> = RefCell::new(BTreeMap::new());
}

/// Payload with drop glue. `heap` is only populated in the ASan / miri legs, where a double drop is a
/// double free the tool reports; natively the ledger reports it without crashing.
#[derive(Debug)]
pub struct Tok {
    id: u64,
    #[allow(dead_code)]
    heap: Option<Box<u64>>,
}
fn fresh() -> u64 {
    NEXT.with(|n| {
        let mut n = n.borrow_mut();
        *n += 1;
        *n
    })
}
impl Tok {
    fn new(ids: &mut Vec<u64>) -> Tok {
        let id = fresh();
        ids.push(id);
        let heap = if HEAP.with(|h| *h.borrow()) { Some(Box::new(id)) } else { None };
        Tok { id, heap }
    }
}
impl Drop for Tok {
    fn drop(&mut self) {
        LEDGER.with(|l| *l.borrow_mut().entry(self.id).or_insert(0) += 1);
    }
}
thread_local! { static CLONED: RefCell<Vec<u64>> = RefCell::new(vec![]); }
impl Clone for Tok {
    fn clone(&self) -> Tok {
        let id = fresh();
        CLONED.with(|c| c.borrow_mut().push(id));
        let heap = if HEAP.with(|h| *h.borrow()) { Some(Box::new(id)) } else { None };
        Tok { id, heap }
    }
}
/// A second payload type reached through `into_converted_option`.
#[derive(Debug)]
pub struct Tok2(Tok);
impl From<Tok> for Tok2 {
    fn from(t: Tok) -> Tok2 {
        Tok2(t)
    }
}

unsafe extern "C" fn cb_run(_data: *mut c_void) {}
thread_local! {
    static STATELESS_DESTROYED: RefCell<u64> = RefCell::new(0);
}
/// destructor of a callback that has no state: `data` is NULL, the function itself is the whole callback
unsafe extern "C" fn cb_destroy_stateless(_data: *mut c_void) {
    STATELESS_DESTROYED.with(|c| *c.borrow_mut() += 1);
}
fn stateless_destroyed() -> u64 {
    STATELESS_DESTROYED.with(|c| *c.borrow())
}
/// drop one value; a stateless callback's destructor must run exactly once, nobody else's may
fn drop_checked(val: Val, at: &str) -> Result<(), String> {
    let stateless = matches!(val, Val::CBS(_));
    let before = stateless_destroyed();
    drop(val);
    let ran = stateless_destroyed() - before;
    if stateless && ran != 1 {
        return Err(format!("{}: the destructor of a callback with NULL data ran {} times when the callback was dropped", at, ran));
    }
    if !stateless && ran != 0 {
        return Err(format!("{}: a stateless callback's destructor ran although none was dropped", at));
    }
    Ok(())
}
unsafe extern "C" fn cb_destroy(data: *mut c_void) {
    let id = data as usize as u64;
    CB_DESTROYED.with(|l| *l.borrow_mut().entry(id).or_insert(0) += 1);
    LEDGER.with(|l| *l.borrow_mut().entry(id).or_insert(0) += 1);
}

#[derive(Clone, Debug, Serialize, Deserialize)]
pub enum Op {
    /// Result<Tok,Tok>: ok arm?
    NewResult(bool),
    /// Option<Tok>: some?
    NewOption(bool),
    /// Box<[Tok]> of n elements
    NewBoxSlice(usize),
    /// DiplomatOwnedSlice<Tok> as the foreign side builds it for "no elements": NULL + 0
    NewNullOwned,
    /// Box<str> of n bytes
    NewBoxStr(usize),
    /// DiplomatCallback<()> with (true) or without (false) a destructor
    NewCallback(bool),
    /// convert value k to the other representation (std <-> Diplomat), `how` picks among equivalent APIs
    Convert(usize, u8),
    Clone(usize),
    AsRef(usize),
    Drop(usize),
    /// DiplomatCallback<()> without state: data == NULL, destructor present
    NewStatelessCallback,
    /// Result with one plain-data arm and one owning arm: 0/1 Result<u32, Tok> Err/Ok, 2/3 Result<Tok, u32> Ok/Err, 4/5 Result<(), Tok> Err/Ok
    NewMixedResult(u8),
    /// a foreign-side scratch buffer, as the JS and Dart glue makes one for every string / list argument (zero bytes for an
    /// empty one): diplomat_alloc(size, 1 << align_log2), fill, diplomat_free with the same size and alignment
    ScratchBuf(usize, u8),
}

#[derive(Clone, Debug, Serialize, Deserialize)]
pub struct Case {
    pub ops: Vec<Op>,
}

enum Val {
    R(Result<Tok, Tok>),
    DR(DiplomatResult<Tok, Tok>),
    O(Option<Tok>),
    DO(DiplomatOption<Tok>),
    O2(Option<Tok2>),
    BS(Box<[Tok]>),
    OS(DiplomatOwnedSlice<Tok>),
    Str(Box<str>),
    OStr(DiplomatOwnedUTF8StrSlice),
    CB(DiplomatCallback<()>),
    CBS(DiplomatCallback<()>),
    RM(Result<u32, Tok>),
    DRM(DiplomatResult<u32, Tok>),
    RN(Result<Tok, u32>),
    DRN(DiplomatResult<Tok, u32>),
    RU(Result<(), Tok>),
    DRU(DiplomatResult<(), Tok>),
}
impl Val {
    fn kind(&self) -> &'static str {
        match self {
            Val::R(_) => "Result",
            Val::DR(_) => "DiplomatResult",
            Val::O(_) => "Option",
            Val::DO(_) => "DiplomatOption",
            Val::O2(_) => "Option<Converted>",
            Val::BS(_) => "Box<[T]>",
            Val::OS(_) => "DiplomatOwnedSlice",
            Val::Str(_) => "Box<str>",
            Val::OStr(_) => "DiplomatOwnedUTF8StrSlice",
            Val::CB(_) => "DiplomatCallback",
            Val::CBS(_) => "DiplomatCallback (NULL data)",
            Val::RM(_) | Val::RN(_) | Val::RU(_) => "Result (one plain arm)",
            Val::DRM(_) | Val::DRN(_) | Val::DRU(_) => "DiplomatResult (one plain arm)",
        }
    }
}

struct Slot {
    val: Val,
    ids: Vec<u64>,
}

fn ledger_check(expected_dropped: &BTreeMap<u64, ()>, at: &str) -> Result<(), String> {
    LEDGER.with(|l| {
        let l = l.borrow();
        for (id, n) in l.iter() {
            if *n > 1 {
                return Err(format!("{}: payload #{} was dropped {} times", at, id, n));
            }
            if !expected_dropped.contains_key(id) {
                return Err(format!("{}: payload #{} was dropped although its owner is still alive", at, id));
            }
        }
        for id in expected_dropped.keys() {
            if !l.contains_key(id) {
                return Err(format!("{}: payload #{} was never dropped (leak) although its owner was dropped", at, id));
            }
        }
        Ok(())
    })
}

/// monotone index map so that shrinking the raw draw shrinks the index
fn pick(raw: usize, len: usize) -> usize {
    ((raw as u128 * len as u128) >> 64) as usize
}

pub fn check(case: &Case) -> Result<(), String> {
    LEDGER.with(|l| l.borrow_mut().clear());
    CB_DESTROYED.with(|l| l.borrow_mut().clear());
    CLONED.with(|l| l.borrow_mut().clear());
    let mut pool: Vec<Slot> = vec![];
    let mut dropped: BTreeMap<u64, ()> = BTreeMap::new();
    let mut n_convert = 0;
    let mut n_conv_with_payload = 0;
    let mut n_drop_after_convert = 0;
    let mut kinds_converted: BTreeMap<&'static str, ()> = BTreeMap::new();
    let mut converted_once: Vec<bool> = vec![];
    for (i, op) in case.ops.iter().enumerate() {
        let at = format!("after op {} ({:?})", i, op);
        match op {
            Op::NewResult(ok) => {
                let mut ids = vec![];
                let t = Tok::new(&mut ids);
                pool.push(Slot { val: Val::R(if *ok { Ok(t) } else { Err(t) }), ids });
                converted_once.push(false);
            }
            Op::NewOption(some) => {
                let mut ids = vec![];
                let v = if *some { Some(Tok::new(&mut ids)) } else { None };
                pool.push(Slot { val: Val::O(v), ids });
                converted_once.push(false);
            }
            Op::NewBoxSlice(n) => {
                let mut ids = vec![];
                let v: Vec<Tok> = (0..*n).map(|_| Tok::new(&mut ids)).collect();
                pool.push(Slot { val: Val::BS(v.into_boxed_slice()), ids });
                converted_once.push(false);
            }
            Op::NewNullOwned => {
                let m = ViewMirror { ptr: std::ptr::null_mut(), len: 0 };
                let v: DiplomatOwnedSlice<Tok> = unsafe { std::mem::transmute(m) };
                pool.push(Slot { val: Val::OS(v), ids: vec![] });
                converted_once.push(false);
            }
            Op::NewStatelessCallback => {
                let cb = DiplomatCallback::<()> {
                    data: std::ptr::null_mut(),
                    run_callback: unsafe { std::mem::transmute::<unsafe extern "C" fn(*mut c_void), unsafe extern "C" fn(*mut c_void, ...)>(cb_run) },
                    destructor: Some(cb_destroy_stateless),
                };
                label("stateless-callback");
                pool.push(Slot { val: Val::CBS(cb), ids: vec![] });
                converted_once.push(false);
            }
            Op::NewMixedResult(which) => {
                let mut ids = vec![];
                let val = match which % 6 {
                    0 => Val::RM(Err(Tok::new(&mut ids))),
                    1 => Val::RM(Ok(5)),
                    2 => Val::RN(Ok(Tok::new(&mut ids))),
                    3 => Val::RN(Err(7)),
                    4 => Val::RU(Err(Tok::new(&mut ids))),
                    _ => Val::RU(Ok(())),
                };
                label("mixed-result");
                pool.push(Slot { val, ids });
                converted_once.push(false);
            }
            Op::ScratchBuf(size, al) => {
                // (a zero-sized request is what the glue does; miri rejects it as a GlobalAlloc contract violation, so that
                // leg keeps to non-empty buffers)
                let size = if cfg!(miri) { (*size).max(1) } else { *size };
                let align = 1usize << (*al % 5);
                label(if size == 0 { "scratch-buf:empty" } else { "scratch-buf" });
                unsafe {
                    let p = diplomat_alloc(size, align);
                    if p.is_null() || (p as usize) % align != 0 {
                        return Err(format!("diplomat_alloc({}, {}) returned {:?}", size, align, p));
                    }
                    std::ptr::write_bytes(p, 0xA5, size);
                    diplomat_free(p, size, align);
                }
            }
            Op::NewBoxStr(n) => {
                let s: String = "aé€".chars().cycle().take(*n).collect();
                pool.push(Slot { val: Val::Str(s.into_boxed_str()), ids: vec![] });
                converted_once.push(false);
            }
            Op::NewCallback(with_dtor) => {
                let id = fresh();
                let cb = DiplomatCallback::<()> {
                    data: id as usize as *mut c_void,
                    run_callback: unsafe { std::mem::transmute::<unsafe extern "C" fn(*mut c_void), unsafe extern "C" fn(*mut c_void, ...)>(cb_run) },
                    destructor: if *with_dtor { Some(cb_destroy) } else { None },
                };
                pool.push(Slot { val: Val::CB(cb), ids: if *with_dtor { vec![id] } else { vec![] } });
                converted_once.push(false);
            }
            Op::Convert(k, how) => {
                if pool.is_empty() {
                    continue;
                }
                let k = pick(*k, pool.len());
                let Slot { val, ids } = pool.remove(k);
                let was = converted_once.remove(k);
                n_convert += 1;
                if !ids.is_empty() {
                    n_conv_with_payload += 1;
                }
                kinds_converted.insert(val.kind(), ());
                let nv = match val {
                    Val::R(r) => Val::DR(r.into()),
                    Val::DR(d) => Val::R(d.into()),
                    Val::O(o) => Val::DO(o.into()),
                    Val::DO(d) => match how % 3 {
                        0 => Val::O(d.into()),
                        1 => Val::O(d.into_option()),
                        _ => Val::O2(d.into_converted_option::<Tok2>()),
                    },
                    Val::O2(o) => Val::DO(o.map(|t| {
                        // unwrap without dropping
                        let t = std::mem::ManuallyDrop::new(t);
                        unsafe { std::ptr::read(&t.0) }
                    }).into()),
                    Val::BS(b) => Val::OS(b.into()),
                    Val::OS(o) => Val::BS(o.into()),
                    Val::Str(s) => Val::OStr(s.into()),
                    Val::OStr(o) => Val::Str(o.into()),
                    Val::CB(c) => Val::CB(c),
                    Val::CBS(c) => Val::CBS(c),
                    Val::RM(r) => Val::DRM(r.into()),
                    Val::DRM(d) => Val::RM(d.into()),
                    Val::RN(r) => Val::DRN(r.into()),
                    Val::DRN(d) => Val::RN(d.into()),
                    Val::RU(r) => Val::DRU(r.into()),
                    Val::DRU(d) => Val::RU(d.into()),
                };
                pool.insert(k, Slot { val: nv, ids });
                let _ = was;
                converted_once.insert(k, true);
            }
            Op::Clone(k) => {
                if pool.is_empty() {
                    continue;
                }
                let k = pick(*k, pool.len());
                CLONED.with(|c| c.borrow_mut().clear());
                let nv = match &pool[k].val {
                    Val::DR(d) => Some(Val::DR(d.clone())),
                    Val::DO(d) => Some(Val::DO(d.clone())),
                    Val::R(r) => Some(Val::R(r.clone())),
                    Val::O(o) => Some(Val::O(o.clone())),
                    Val::DRM(d) => Some(Val::DRM(d.clone())),
                    Val::DRN(d) => Some(Val::DRN(d.clone())),
                    Val::DRU(d) => Some(Val::DRU(d.clone())),
                    Val::RM(r) => Some(Val::RM(r.clone())),
                    Val::RN(r) => Some(Val::RN(r.clone())),
                    Val::RU(r) => Some(Val::RU(r.clone())),
                    _ => None,
                };
                if let Some(nv) = nv {
                    let ids = CLONED.with(|c| c.borrow().clone());
                    if ids.len() != pool[k].ids.len() {
                        return Err(format!("{}: clone of {} produced {} payload clones, expected {}", at, pool[k].val.kind(), ids.len(), pool[k].ids.len()));
                    }
                    pool.push(Slot { val: nv, ids });
                    converted_once.push(false);
                }
            }
            Op::AsRef(k) => {
                if pool.is_empty() {
                    continue;
                }
                let k = pick(*k, pool.len());
                let slot = &mut pool[k];
                match &mut slot.val {
                    Val::DR(d) => {
                        let id = match d.as_ref() {
                            Ok(t) => t.id,
                            Err(t) => t.id,
                        };
                        if slot.ids != vec![id] {
                            return Err(format!("{}: as_ref sees payload #{} but the value owns {:?}", at, id, slot.ids));
                        }
                        let _ = format!("{:?}", d);
                    }
                    Val::DO(d) => {
                        let seen: Vec<u64> = d.as_ref().ok().map(|t| t.id).into_iter().collect();
                        if slot.ids != seen {
                            return Err(format!("{}: as_ref sees {:?} but the option owns {:?}", at, seen, slot.ids));
                        }
                    }
                    Val::OS(o) => {
                        let seen: Vec<u64> = o.iter().map(|t| t.id).collect();
                        if slot.ids != seen {
                            return Err(format!("{}: owned slice derefs to {:?} but owns {:?}", at, seen, slot.ids));
                        }
                        let n = o.len();
                        if n >= 2 {
                            // permute through DerefMut: ownership unchanged
                            let dm: &mut [Tok] = &mut *o;
                            dm.swap(0, n - 1);
                            slot.ids.swap(0, n - 1);
                        }
                    }
                    Val::OStr(o) => {
                        let _ = (&**o).len();
                    }
                    _ => {}
                }
            }
            Op::Drop(k) => {
                if pool.is_empty() {
                    continue;
                }
                let k = pick(*k, pool.len());
                let Slot { val, ids } = pool.remove(k);
                if converted_once.remove(k) {
                    n_drop_after_convert += 1;
                }
                for id in ids {
                    dropped.insert(id, ());
                }
                drop_checked(val, &at)?;
            }
        }
        ledger_check(&dropped, &at)?;
    }
    // end of case: everything left is dropped now, exactly once
    for Slot { val, ids } in pool.drain(..) {
        for id in ids {
            dropped.insert(id, ());
        }
        drop_checked(val, "at end of case")?;
    }
    ledger_check(&dropped, "at end of case (all owners dropped)")?;
    if n_convert > 0 {
        label("has-convert");
    }
    for k in kinds_converted.keys() {
        label(&format!("convert:{}", k));
    }
    let nontrivial = n_conv_with_payload >= 1 && n_drop_after_convert >= 1;
    record(case, nontrivial);
    Ok(())
}

pub fn set_heap(on: bool) {
    HEAP.with(|h| *h.borrow_mut() = on);
}

pub fn strategy() -> impl Strategy<Value = Case> {
    let idx = any::<usize>();
    let op = prop_oneof![
        3 => any::<bool>().prop_map(Op::NewResult),
        3 => any::<bool>().prop_map(Op::NewOption),
        2 => prop_oneof![Just(0usize), 1usize..5].prop_map(Op::NewBoxSlice),
        1 => Just(Op::NewNullOwned),
        1 => prop_oneof![Just(0usize), 1usize..9].prop_map(Op::NewBoxStr),
        1 => any::<bool>().prop_map(Op::NewCallback),
        8 => (idx.clone(), any::<u8>()).prop_map(|(k, h)| Op::Convert(k, h)),
        2 => idx.clone().prop_map(Op::Clone),
        2 => idx.clone().prop_map(Op::AsRef),
        3 => idx.prop_map(Op::Drop),
        1 => (prop_oneof![Just(0usize), Just(0usize), 1usize..40], any::<u8>()).prop_map(|(n, a)| Op::ScratchBuf(n, a)),
        3 => any::<u8>().prop_map(Op::NewMixedResult),
        1 => Just(Op::NewStatelessCallback),
    ];
    proptest::collection::vec(op, 1..24).prop_map(|ops| Case { ops })
}

pub fn main(args: &Args) -> i32 {
    let heap = args.extra.get("heap").map(|v| v == "1").unwrap_or(false);
    HEAP.with(|h| *h.borrow_mut() = heap);
    if let Some(p) = &args.replay {
        let (_sub, case): (String, Case) = replay_case(p);
        return match check(&case) {
            Ok(()) => {
                println!("replay ok (no violation)");
                0
            }
            Err(m) => {
                println!("RT-VIOLATION property=C03 replay={} :: {}", p, m);
                1
            }
        };
    }
    let o = run_prop("C03", "runtime-ledger", args, 3, strategy(), check);
    write_summary("C03", args, &[o], serde_json::json!({"heap_payloads": heap}))
}
