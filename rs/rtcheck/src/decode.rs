//! Byte-level decoders (arbitrary::Unstructured) into the same case types the proptest strategies produce,
//! so that the libFuzzer targets run exactly the oracles of the property tests.
use crate::{c03, c12, c16};
use arbitrary::Unstructured;

fn chunk(u: &mut Unstructured) -> String {
    const ALPH: &[&str] = &["a", "b", "z", "é", "€", "😀", "ß", " ", "~", "0"];
    let n = match u.int_in_range(0..=9u8).unwrap_or(0) {
        0 => 0,
        1..=5 => u.int_in_range(1..=6usize).unwrap_or(1),
        6..=8 => u.int_in_range(8..=40usize).unwrap_or(8),
        _ => u.int_in_range(60..=300usize).unwrap_or(60),
    };
    let mut s = String::new();
    for _ in 0..n {
        s.push_str(ALPH[u.int_in_range(0..=ALPH.len() - 1).unwrap_or(0)]);
    }
    s
}

pub fn c12_case(u: &mut Unstructured) -> c12::Case {
    let cap = |u: &mut Unstructured| match u.int_in_range(0..=7u8).unwrap_or(0) {
        0..=3 => u.int_in_range(1..=11usize).unwrap_or(1),
        4..=6 => u.int_in_range(12..=79usize).unwrap_or(12),
        _ => u.int_in_range(80..=599usize).unwrap_or(80),
    };
    let kind = match u.int_in_range(0..=9u8).unwrap_or(0) {
        0..=4 => {
            let c = cap(u);
            let n = u.int_in_range(0..=6usize).unwrap_or(0);
            let mut outcomes = vec![];
            for _ in 0..n {
                outcomes.push(match u.int_in_range(0..=3u8).unwrap_or(0) {
                    0 => None,
                    1 => Some(0),
                    2 => Some(u.int_in_range(0..=15usize).unwrap_or(0)),
                    _ => Some(u.int_in_range(16..=199usize).unwrap_or(16)),
                });
            }
            c12::Kind::Caller { cap: c, outcomes }
        }
        5 | 6 => c12::Kind::Owned { cap: if u.ratio(1u8, 4u8).unwrap_or(false) { 0 } else { cap(u) } },
        _ => c12::Kind::Fixed { buf_size: cap(u) },
    };
    let n = u.int_in_range(0..=11usize).unwrap_or(0);
    let mut ops = vec![];
    for _ in 0..n {
        ops.push(match u.int_in_range(0..=14u8).unwrap_or(0) {
            0..=7 => c12::WOp::Str(chunk(u)),
            8 | 9 => c12::WOp::Char(char::from_u32(u.int_in_range(0..=0x10FFFFu32).unwrap_or(65)).unwrap_or('a')),
            10 | 11 => c12::WOp::Fmt2(chunk(u), chunk(u)),
            12 => c12::WOp::Fmt3(chunk(u), u.arbitrary().unwrap_or(0), chunk(u)),
            _ => c12::WOp::Flush,
        });
    }
    c12::Case { kind, ops }
}

pub fn c03_case(u: &mut Unstructured) -> c03::Case {
    let n = u.int_in_range(1..=23usize).unwrap_or(1);
    let mut ops = vec![];
    for _ in 0..n {
        let idx: usize = u.arbitrary().unwrap_or(0);
        ops.push(match u.int_in_range(0..=30u8).unwrap_or(0) {
            30 => c03::Op::NewStatelessCallback,
            26..=28 => c03::Op::NewMixedResult(u.arbitrary().unwrap_or(0)),
            29 => c03::Op::ScratchBuf(u.int_in_range(0..=39usize).unwrap_or(0), u.arbitrary().unwrap_or(0)),
            0..=2 => c03::Op::NewResult(u.arbitrary().unwrap_or(true)),
            3..=5 => c03::Op::NewOption(u.arbitrary().unwrap_or(true)),
            6 | 7 => c03::Op::NewBoxSlice(u.int_in_range(0..=4usize).unwrap_or(0)),
            8 => c03::Op::NewNullOwned,
            9 => c03::Op::NewBoxStr(u.int_in_range(0..=8usize).unwrap_or(0)),
            10 => c03::Op::NewCallback(u.arbitrary().unwrap_or(true)),
            11..=18 => c03::Op::Convert(idx, u.arbitrary().unwrap_or(0)),
            19 | 20 => c03::Op::Clone(idx),
            21 | 22 => c03::Op::AsRef(idx),
            _ => c03::Op::Drop(idx),
        });
    }
    c03::Case { ops }
}

pub fn c16_case(u: &mut Unstructured) -> c16::Case {
    let ty = c16::TYPES[u.int_in_range(0..=c16::TYPES.len() - 1).unwrap_or(0)].to_string();
    let n = u.int_in_range(0..=64usize).unwrap_or(0);
    let mut bits = vec![];
    for _ in 0..n {
        bits.push(u.arbitrary().unwrap_or(0u64));
    }
    let poke = if u.arbitrary().unwrap_or(false) { Some((u.arbitrary().unwrap_or(0), u.arbitrary().unwrap_or(0))) } else { None };
    c16::Case { ty, bits, poke, null_view: u.arbitrary().unwrap_or(false) }
}
