//! C16: slice / string views round-trip; NULL+0 is the empty slice; diplomat_is_str is exact.
use crate::common::*;
use diplomat_runtime::*;
use proptest::prelude::*;
use serde::{Deserialize, Serialize};

/// The documented C layout of every view type: { ptr, len }.
#[repr(C)]
#[derive(Clone, Copy, Debug)]
pub struct ViewMirror {
    pub ptr: *mut u8,
    pub len: usize,
}

extern "C" {
    fn diplomat_is_str(ptr: *const u8, size: usize) -> bool;
    fn diplomat_alloc(size: usize, align: usize) -> *mut u8;
    fn diplomat_free(ptr: *mut u8, size: usize, align: usize);
}

fn mirror_of<V>(v: &V) -> ViewMirror {
    assert_eq!(std::mem::size_of::<V>(), std::mem::size_of::<ViewMirror>());
    unsafe { std::ptr::read(v as *const V as *const ViewMirror) }
}
unsafe fn from_mirror<V>(m: ViewMirror) -> V {
    assert_eq!(std::mem::size_of::<V>(), std::mem::size_of::<ViewMirror>());
    std::ptr::read(&m as *const ViewMirror as *const V)
}

#[derive(Clone, Debug, Serialize, Deserialize)]
pub struct Case {
    /// element type tag
    pub ty: String,
    /// raw element bit patterns (truncated to the element width)
    pub bits: Vec<u64>,
    /// for the &mut leg: index and new bits to write through the view
    pub poke: Option<(usize, u64)>,
    /// also exercise a NULL+0 view
    pub null_view: bool,
}

pub trait Elem: Copy + PartialEq + std::fmt::Debug + 'static {
    fn from_bits64(b: u64) -> Self;
    fn bits64(self) -> u64;
}
macro_rules! int_elem { ($($t:ty),*) => { $(impl Elem for $t {
    fn from_bits64(b: u64) -> Self { b as $t }
    fn bits64(self) -> u64 { self as u64 }
})* } }
int_elem!(i8, u8, i16, u16, i32, u32, i64, u64, isize, usize);
impl Elem for f32 {
    fn from_bits64(b: u64) -> Self { f32::from_bits(b as u32) }
    fn bits64(self) -> u64 { self.to_bits() as u64 }
}
impl Elem for f64 {
    fn from_bits64(b: u64) -> Self { f64::from_bits(b) }
    fn bits64(self) -> u64 { self.to_bits() }
}
impl Elem for bool {
    fn from_bits64(b: u64) -> Self { b & 1 == 1 }
    fn bits64(self) -> u64 { self as u64 }
}

fn bits_eq<T: Elem>(a: &[T], b: &[T]) -> bool {
    a.len() == b.len() && a.iter().zip(b).all(|(x, y)| x.bits64() == y.bits64())
}

fn check_ty<T: Elem>(case: &Case) -> Result<(), String> {
    let ty = &case.ty;
    let orig: Vec<T> = case.bits.iter().map(|b| T::from_bits64(*b)).collect();
    let n = orig.len();

    // &[T] -> DiplomatSlice -> &[T]
    {
        let s: &[T] = &orig;
        let v: DiplomatSlice<T> = s.into();
        let m = mirror_of(&v);
        if m.ptr as *const T != s.as_ptr() || m.len != n {
            return Err(format!("DiplomatSlice<{}> from &[T] of len {}: view is ({:?},{}) expected ({:?},{})", ty, n, m.ptr, m.len, s.as_ptr(), n));
        }
        let d: &[T] = &v; // Deref
        if d.as_ptr() != s.as_ptr() || d.len() != n || !bits_eq(d, s) {
            return Err(format!("DiplomatSlice<{}> deref differs for len {}", ty, n));
        }
        let back: &[T] = v.into();
        if back.as_ptr() != s.as_ptr() || back.len() != n || !bits_eq(back, s) {
            return Err(format!("DiplomatSlice<{}> -> &[T] differs for len {}: got ({:?},{})", ty, n, back.as_ptr(), back.len()));
        }
        // a view built by the foreign side from (ptr,len)
        let v2: DiplomatSlice<T> = unsafe { from_mirror(ViewMirror { ptr: s.as_ptr() as *mut u8, len: n }) };
        let back2: &[T] = v2.into();
        if back2.as_ptr() != s.as_ptr() || !bits_eq(back2, s) {
            return Err(format!("foreign-built DiplomatSlice<{}> of len {} reads back differently", ty, n));
        }
    }
    // views of sub-slices: a view may start at any element of a larger buffer (any multiple of the element size, not only where
    // an allocation starts)
    for k in 1..n.min(5) {
        label("sub-slice");
        let s: &[T] = &orig[k..];
        let v: DiplomatSlice<T> = s.into();
        let d: &[T] = &v;
        if d.as_ptr() != s.as_ptr() || d.len() != n - k || !bits_eq(d, s) {
            return Err(format!("DiplomatSlice<{}> over elements {}.. of a {}-element buffer derefs to ({:?},{}) instead of ({:?},{})", ty, k, n, d.as_ptr(), d.len(), s.as_ptr(), n - k));
        }
        let back: &[T] = v.into();
        if back.as_ptr() != s.as_ptr() || back.len() != n - k || !bits_eq(back, s) {
            return Err(format!("DiplomatSlice<{}> over elements {}.. of a {}-element buffer converts back to ({:?},{}) instead of ({:?},{})", ty, k, n, back.as_ptr(), back.len(), s.as_ptr(), n - k));
        }
        let mut work = orig.clone();
        let expect = orig.clone();
        let sm: &mut [T] = &mut work[k..];
        let pm = sm.as_mut_ptr();
        let mut vm: DiplomatSliceMut<T> = sm.into();
        {
            let dm: &mut [T] = &mut vm;
            if dm.as_mut_ptr() != pm || dm.len() != n - k || !bits_eq(dm, &expect[k..]) {
                return Err(format!("DiplomatSliceMut<{}> over elements {}.. of a {}-element buffer derefs to ({:?},{})", ty, k, n, dm.as_mut_ptr(), dm.len()));
            }
        }
        let backm: &mut [T] = vm.into();
        if backm.as_mut_ptr() != pm || backm.len() != n - k {
            return Err(format!("DiplomatSliceMut<{}> over elements {}.. of a {}-element buffer converts back to ({:?},{})", ty, k, n, backm.as_mut_ptr(), backm.len()));
        }
    }
    // empty windows of a live buffer: a zero-length view still carries the address it was made from
    for k in 0..=n.min(4) {
        label("empty-window");
        let s: &[T] = &orig[k..k];
        let v: DiplomatSlice<T> = s.into();
        let d: &[T] = &v;
        if d.as_ptr() != s.as_ptr() || !d.is_empty() {
            return Err(format!("DiplomatSlice<{}> over the empty window at element {} of a {}-element buffer derefs to ({:?},{}) instead of ({:?},0)", ty, k, n, d.as_ptr(), d.len(), s.as_ptr()));
        }
        let back: &[T] = v.into();
        if back.as_ptr() != s.as_ptr() || !back.is_empty() {
            return Err(format!("DiplomatSlice<{}> over the empty window at element {} of a {}-element buffer converts back to ({:?},{}) instead of ({:?},0)", ty, k, n, back.as_ptr(), back.len(), s.as_ptr()));
        }
        let mut work = orig.clone();
        let sm: &mut [T] = &mut work[k..k];
        let pm = sm.as_mut_ptr();
        let mut vm: DiplomatSliceMut<T> = sm.into();
        {
            let dm: &mut [T] = &mut vm;
            if dm.as_mut_ptr() != pm || !dm.is_empty() {
                return Err(format!("DiplomatSliceMut<{}> over the empty window at element {} of a {}-element buffer derefs to ({:?},{})", ty, k, n, dm.as_mut_ptr(), dm.len()));
            }
        }
        let backm: &mut [T] = vm.into();
        if backm.as_mut_ptr() != pm || !backm.is_empty() {
            return Err(format!("DiplomatSliceMut<{}> over the empty window at element {} of a {}-element buffer converts back to ({:?},{})", ty, k, n, backm.as_mut_ptr(), backm.len()));
        }
    }
    // &mut [T] -> DiplomatSliceMut -> &mut [T], writing through it
    {
        let mut work = orig.clone();
        let p = work.as_mut_ptr();
        let mut expect = orig.clone();
        {
            let s: &mut [T] = &mut work;
            let mut v: DiplomatSliceMut<T> = s.into();
            let m = mirror_of(&v);
            if m.ptr as *mut T != p || m.len != n {
                return Err(format!("DiplomatSliceMut<{}> from &mut [T] of len {}: view is ({:?},{})", ty, n, m.ptr, m.len));
            }
            {
                let d: &[T] = &v;
                if d.len() != n || !bits_eq(d, &expect) {
                    return Err(format!("DiplomatSliceMut<{}> deref differs for len {}", ty, n));
                }
            }
            if let Some((i, b)) = case.poke {
                if n > 0 {
                    let i = ((i as u128 * n as u128) >> 64) as usize;
                    let dm: &mut [T] = &mut v; // DerefMut
                    if dm.len() != n {
                        return Err(format!("DiplomatSliceMut<{}> deref_mut len {} != {}", ty, dm.len(), n));
                    }
                    dm[i] = T::from_bits64(b);
                    expect[i] = T::from_bits64(b);
                }
            }
            let back: &mut [T] = v.into();
            if back.as_mut_ptr() != p || back.len() != n {
                return Err(format!("DiplomatSliceMut<{}> -> &mut [T] differs for len {}", ty, n));
            }
            if n > 0 {
                let j = n - 1;
                let nb = T::from_bits64(!case.bits[j]);
                back[j] = nb;
                expect[j] = nb;
            }
        }
        if !bits_eq(&work, &expect) {
            return Err(format!("writes through DiplomatSliceMut<{}> (len {}) did not land in the original storage", ty, n));
        }
    }
    // Box<[T]> -> DiplomatOwnedSlice -> Box<[T]>
    {
        let b: Box<[T]> = orig.clone().into_boxed_slice();
        let p = b.as_ptr();
        let mut v: DiplomatOwnedSlice<T> = b.into();
        let m = mirror_of(&v);
        if m.ptr as *const T != p || m.len != n {
            return Err(format!("DiplomatOwnedSlice<{}> from Box<[T]> of len {}: view is ({:?},{}) expected ({:?},{})", ty, n, m.ptr, m.len, p, n));
        }
        {
            let d: &[T] = &v;
            if d.len() != n || !bits_eq(d, &orig) {
                return Err(format!("DiplomatOwnedSlice<{}> deref differs for len {}", ty, n));
            }
        }
        {
            let dm: &mut [T] = &mut v;
            if dm.len() != n {
                return Err(format!("DiplomatOwnedSlice<{}> deref_mut len {} != {}", ty, dm.len(), n));
            }
        }
        let back: Box<[T]> = v.into();
        if back.as_ptr() != p || back.len() != n || !bits_eq(&back, &orig) {
            return Err(format!("DiplomatOwnedSlice<{}> -> Box<[T]> differs for len {}: ptr {:?} vs {:?}, len {}", ty, n, back.as_ptr(), p, back.len()));
        }
        drop(back);
        // owned view dropped without converting (frees exactly once; checked by ASan/miri legs)
        let b2: Box<[T]> = orig.clone().into_boxed_slice();
        let v2: DiplomatOwnedSlice<T> = b2.into();
        drop(v2);
        // owned view built by the foreign side with diplomat_alloc
        if n > 0 {
            let size = n * std::mem::size_of::<T>();
            let align = std::mem::align_of::<T>();
            let raw = unsafe { diplomat_alloc(size, align) };
            if raw.is_null() || (raw as usize) % align != 0 {
                return Err(format!("diplomat_alloc({}, {}) returned {:?}", size, align, raw));
            }
            unsafe { std::ptr::copy_nonoverlapping(orig.as_ptr() as *const u8, raw, size) };
            let v3: DiplomatOwnedSlice<T> = unsafe { from_mirror(ViewMirror { ptr: raw, len: n }) };
            let bx: Box<[T]> = v3.into();
            if bx.as_ptr() as *mut u8 != raw || !bits_eq(&bx, &orig) {
                return Err(format!("foreign-built DiplomatOwnedSlice<{}> of len {} reads back differently", ty, n));
            }
            drop(bx); // Rust frees what diplomat_alloc allocated
            // and the reverse direction: alloc/free pair
            let raw2 = unsafe { diplomat_alloc(size, align) };
            unsafe {
                std::ptr::write_bytes(raw2, 0x5A, size);
                diplomat_free(raw2, size, align);
            }
        }
    }
    if case.null_view {
        label("null-view");
        let nul = ViewMirror { ptr: std::ptr::null_mut(), len: 0 };
        let v: DiplomatSlice<T> = unsafe { from_mirror(nul) };
        if (&*v).len() != 0 {
            return Err(format!("NULL+0 DiplomatSlice<{}> derefs to len {}", ty, (&*v).len()));
        }
        // a valid empty slice has a non-null pointer that is aligned for T
        let bad = |p: usize| std::hint::black_box(p) == 0 || std::hint::black_box(p) % std::mem::align_of::<T>() != 0;
        if bad((&*v).as_ptr() as usize) {
            return Err(format!("NULL+0 DiplomatSlice<{}> derefs to a slice at {:#x} (must be non-null and aligned to {})", ty, (&*v).as_ptr() as usize, std::mem::align_of::<T>()));
        }
        let s: &[T] = v.into();
        if !s.is_empty() || bad(s.as_ptr() as usize) {
            return Err(format!("NULL+0 DiplomatSlice<{}> -> &[T] is not a valid empty slice", ty));
        }
        let mut vm: DiplomatSliceMut<T> = unsafe { from_mirror(nul) };
        if (&*vm).len() != 0 || (&mut *vm).len() != 0 {
            return Err(format!("NULL+0 DiplomatSliceMut<{}> deref not empty", ty));
        }
        if bad((&*vm).as_ptr() as usize) || bad((&mut *vm).as_ptr() as usize) {
            return Err(format!("NULL+0 DiplomatSliceMut<{}> derefs to a slice at {:#x} (must be non-null and aligned to {})", ty, (&*vm).as_ptr() as usize, std::mem::align_of::<T>()));
        }
        let sm: &mut [T] = vm.into();
        if !sm.is_empty() || bad(sm.as_ptr() as usize) {
            return Err(format!("NULL+0 DiplomatSliceMut<{}> -> &mut [T] is not a valid empty slice", ty));
        }
        let mut vo: DiplomatOwnedSlice<T> = unsafe { from_mirror(nul) };
        if (&*vo).len() != 0 || (&mut *vo).len() != 0 {
            return Err(format!("NULL+0 DiplomatOwnedSlice<{}> deref not empty", ty));
        }
        let bo: Box<[T]> = vo.into();
        if !bo.is_empty() || bad(bo.as_ptr() as usize) {
            return Err(format!("NULL+0 DiplomatOwnedSlice<{}> -> Box<[T]> is not a valid empty box", ty));
        }
        drop(bo);
        let vo2: DiplomatOwnedSlice<T> = unsafe { from_mirror(nul) };
        drop(vo2); // must not free
    }
    Ok(())
}

fn check_str(case: &Case) -> Result<(), String> {
    // bits are interpreted as scalar values; invalid ones are skipped
    let s: String = case.bits.iter().filter_map(|b| char::from_u32(*b as u32)).collect();
    let n = s.len();
    {
        let r: &str = &s;
        let v: DiplomatUtf8StrSlice = r.into();
        let m = mirror_of(&v);
        if m.ptr as *const u8 != r.as_ptr() || m.len != n {
            return Err(format!("DiplomatUtf8StrSlice from &str of len {}: view ({:?},{})", n, m.ptr, m.len));
        }
        let d: &str = &v;
        if d != r || d.as_ptr() != r.as_ptr() {
            return Err(format!("DiplomatUtf8StrSlice deref differs for {:?}", r));
        }
        let back: &str = v.into();
        if back != r || back.as_ptr() != r.as_ptr() {
            return Err(format!("DiplomatUtf8StrSlice -> &str differs for {:?}", r));
        }
        // empty windows at character boundaries
        for (i, _) in r.char_indices().take(4).chain(core::iter::once((n, ' '))) {
            let w: &str = &r[i..i];
            let vw: DiplomatUtf8StrSlice = w.into();
            let bw: &str = vw.into();
            if bw.as_ptr() != w.as_ptr() || !bw.is_empty() {
                return Err(format!("DiplomatUtf8StrSlice over the empty window at byte {} of {:?} converts back to ({:?},{})", i, r, bw.as_ptr(), bw.len()));
            }
        }
    }
    {
        let b: Box<str> = s.clone().into_boxed_str();
        let p = b.as_ptr();
        let v: DiplomatOwnedUTF8StrSlice = b.into();
        let m = mirror_of(&v);
        if m.ptr as *const u8 != p || m.len != n {
            return Err(format!("DiplomatOwnedUTF8StrSlice from Box<str> of len {}: view ({:?},{}) expected ({:?},{})", n, m.ptr, m.len, p, n));
        }
        {
            let d: &str = &v;
            if d != s {
                return Err(format!("DiplomatOwnedUTF8StrSlice deref differs for {:?}", s));
            }
        }
        let back: Box<str> = v.into();
        if &*back != s.as_str() || back.as_ptr() != p {
            return Err(format!("DiplomatOwnedUTF8StrSlice -> Box<str> differs for {:?}", s));
        }
        drop(back);
        let v2: DiplomatOwnedUTF8StrSlice = s.clone().into_boxed_str().into();
        drop(v2);
    }
    {
        // unvalidated string views are plain slices of u8 / u16
        let u16s: Vec<u16> = case.bits.iter().map(|b| *b as u16).collect();
        let v: DiplomatStr16Slice = (&u16s[..]).into();
        let back: &[u16] = v.into();
        if back != &u16s[..] || back.as_ptr() != u16s.as_ptr() {
            return Err("DiplomatStr16Slice round trip differs".into());
        }
        let v8: DiplomatStrSlice = s.as_bytes().into();
        let back8: &[u8] = v8.into();
        if back8 != s.as_bytes() {
            return Err("DiplomatStrSlice round trip differs".into());
        }
        let o: DiplomatOwnedStr16Slice = u16s.clone().into_boxed_slice().into();
        let ob: Box<[u16]> = o.into();
        if &ob[..] != &u16s[..] {
            return Err("DiplomatOwnedStr16Slice round trip differs".into());
        }
    }
    if case.null_view {
        label("null-view");
        let nul = ViewMirror { ptr: std::ptr::null_mut(), len: 0 };
        let v: DiplomatUtf8StrSlice = unsafe { from_mirror(nul) };
        let d: &str = &v;
        if !d.is_empty() {
            return Err("NULL+0 DiplomatUtf8StrSlice deref not empty".into());
        }
        let r: &str = v.into();
        if !r.is_empty() {
            return Err("NULL+0 DiplomatUtf8StrSlice -> &str not empty".into());
        }
        let vo: DiplomatOwnedUTF8StrSlice = unsafe { from_mirror(nul) };
        {
            let d: &str = &vo;
            if !d.is_empty() {
                return Err("NULL+0 DiplomatOwnedUTF8StrSlice deref not empty".into());
            }
        }
        let b: Box<str> = vo.into();
        if !b.is_empty() {
            return Err("NULL+0 DiplomatOwnedUTF8StrSlice -> Box<str> not empty".into());
        }
    }
    Ok(())
}

pub const TYPES: &[&str] = &[
    "i8", "u8", "i16", "u16", "i32", "u32", "i64", "u64", "isize", "usize", "f32", "f64", "bool", "str",
];

pub fn check(case: &Case) -> Result<(), String> {
    let r = match case.ty.as_str() {
        "i8" => check_ty::<i8>(case),
        "u8" => check_ty::<u8>(case),
        "i16" => check_ty::<i16>(case),
        "u16" => check_ty::<u16>(case),
        "i32" => check_ty::<i32>(case),
        "u32" => check_ty::<u32>(case),
        "i64" => check_ty::<i64>(case),
        "u64" => check_ty::<u64>(case),
        "isize" => check_ty::<isize>(case),
        "usize" => check_ty::<usize>(case),
        "f32" => check_ty::<f32>(case),
        "f64" => check_ty::<f64>(case),
        "bool" => check_ty::<bool>(case),
        "str" => check_str(case),
        _ => Ok(()),
    };
    r?;
    label(&format!("ty:{}", case.ty));
    if case.bits.is_empty() {
        label("len0");
    }
    record(case, !case.bits.is_empty());
    Ok(())
}

pub fn strategy() -> impl Strategy<Value = Case> {
    let bits = prop_oneof![
        2 => Just(0u64),
        2 => Just(u64::MAX),
        1 => Just(0x8000_0000_0000_0000u64),
        1 => Just(0x7FF8_0000_0000_0001u64),
        1 => Just(0x7FC0_0001u64),
        1 => Just(0xD800u64),
        2 => 0u64..0x11_0000,
        6 => any::<u64>(),
    ];
    let len = prop_oneof![2 => Just(0usize), 3 => 1usize..4, 3 => 4usize..40, 1 => 40usize..300];
    (
        proptest::sample::select(TYPES.to_vec()),
        len.prop_flat_map(move |n| proptest::collection::vec(bits.clone(), n..=n)),
        proptest::option::of((any::<usize>(), any::<u64>())),
        any::<bool>(),
    )
        .prop_map(|(ty, bits, poke, null_view)| Case { ty: ty.to_string(), bits, poke, null_view })
}

// ---------------------------------------------------------------------------------------------
// UTF-8 predicate: independent validator written from the Unicode "well-formed UTF-8 byte
// sequences" table (Unicode 15, table 3-7). Deliberately not core::str::from_utf8.
pub fn wf_utf8(b: &[u8]) -> bool {
    let mut i = 0;
    let n = b.len();
    while i < n {
        let b0 = b[i];
        let (need, lo, hi) = match b0 {
            0x00..=0x7F => (0, 0x80, 0xBF),
            0xC2..=0xDF => (1, 0x80, 0xBF),
            0xE0 => (2, 0xA0, 0xBF),
            0xE1..=0xEC => (2, 0x80, 0xBF),
            0xED => (2, 0x80, 0x9F),
            0xEE..=0xEF => (2, 0x80, 0xBF),
            0xF0 => (3, 0x90, 0xBF),
            0xF1..=0xF3 => (3, 0x80, 0xBF),
            0xF4 => (3, 0x80, 0x8F),
            _ => return false,
        };
        if need > 0 && i + need >= n {
            return false; // truncated sequence
        }
        for k in 1..=need {
            let c = b[i + k];
            let (l, h) = if k == 1 { (lo, hi) } else { (0x80, 0xBF) };
            if c < l || c > h {
                return false;
            }
        }
        i += need + 1;
    }
    true
}

fn is_str(b: &[u8]) -> bool {
    unsafe { diplomat_is_str(b.as_ptr(), b.len()) }
}

#[derive(Clone, Debug, Serialize, Deserialize)]
pub struct Utf8Case {
    pub bytes: Vec<u8>,
}

pub fn check_utf8(c: &Utf8Case) -> Result<(), String> {
    let exp = wf_utf8(&c.bytes);
    let got = is_str(&c.bytes);
    if exp != got {
        return Err(format!("diplomat_is_str({:02x?}) = {}, well-formed UTF-8 table says {}", c.bytes, got, exp));
    }
    // copy to an exactly-sized heap block so ASan/miri see any read past `size`
    let exact: Box<[u8]> = c.bytes.clone().into_boxed_slice();
    if is_str(&exact) != exp {
        return Err(format!("diplomat_is_str({:02x?}) unstable across buffers", c.bytes));
    }
    if c.bytes.is_empty() {
        // foreign callers pass the empty string as (NULL, 0), e.g. a default std::string_view
        if !unsafe { diplomat_is_str(std::ptr::null(), 0) } {
            return Err("diplomat_is_str(NULL, 0) = false; the empty string is valid UTF-8".into());
        }
        label("utf8:null-empty");
    }
    if exp {
        label("utf8:valid");
    } else {
        label("utf8:invalid");
    }
    record(c, c.bytes.iter().any(|b| *b >= 0x80));
    Ok(())
}

/// valid text with (usually) one mutation
pub fn utf8_strategy() -> impl Strategy<Value = Utf8Case> {
    let ch = prop_oneof![
        3 => (0x20u32..0x7F),
        2 => (0x80u32..0x800),
        2 => (0x800u32..0xD800),
        1 => (0xE000u32..0x10000),
        2 => (0x10000u32..0x110000),
        1 => prop_oneof![Just(0x7Fu32), Just(0x80), Just(0x7FF), Just(0x800), Just(0xD7FF), Just(0xE000), Just(0xFFFF), Just(0x10000), Just(0x10FFFF)],
    ]
    .prop_map(|c| char::from_u32(c).unwrap());
    let ascii = (0x20u32..0x7F).prop_map(|c| char::from_u32(c).unwrap());
    let mostly_ascii = prop_oneof![12 => ascii, 1 => ch.clone()];
    let text = prop_oneof![
        3 => proptest::collection::vec(ch, 0..12),
        2 => proptest::collection::vec(mostly_ascii.clone(), 8..48),
        1 => proptest::collection::vec(mostly_ascii, 48..200),
    ]
    .prop_map(|v| v.into_iter().collect::<String>().into_bytes());
    #[derive(Clone, Debug)]
    enum Mut {
        None,
        Truncate(usize),
        Overwrite(usize, u8),
        Insert(usize, Vec<u8>),
        Delete(usize),
    }
    let bad = prop_oneof![
        Just(vec![0xC0u8, 0x80]),
        Just(vec![0xC1, 0xBF]),
        Just(vec![0xE0, 0x80, 0x80]),
        Just(vec![0xE0, 0x9F, 0xBF]),
        Just(vec![0xED, 0xA0, 0x80]),
        Just(vec![0xED, 0xBF, 0xBF]),
        Just(vec![0xF0, 0x80, 0x80, 0x80]),
        Just(vec![0xF0, 0x8F, 0xBF, 0xBF]),
        Just(vec![0xF4, 0x90, 0x80, 0x80]),
        Just(vec![0xF5, 0x80, 0x80, 0x80]),
        Just(vec![0xF8, 0x88, 0x80, 0x80, 0x80]),
        Just(vec![0x80]),
        Just(vec![0xBF]),
        Just(vec![0xFF]),
        Just(vec![0xFE]),
        Just(vec![0xF4, 0x8F, 0xBF]),
        Just(vec![0xE2, 0x82]),
        proptest::collection::vec(any::<u8>(), 1..4),
    ];
    let m = prop_oneof![
        2 => Just(Mut::None),
        2 => any::<usize>().prop_map(Mut::Truncate),
        3 => (any::<usize>(), any::<u8>()).prop_map(|(i, b)| Mut::Overwrite(i, b)),
        3 => (any::<usize>(), bad).prop_map(|(i, b)| Mut::Insert(i, b)),
        1 => any::<usize>().prop_map(Mut::Delete),
    ];
    (text, m).prop_map(|(mut t, m)| {
        match m {
            Mut::None => {}
            Mut::Truncate(i) => {
                if !t.is_empty() {
                    let k = t.len() - 1 - (i % t.len().min(4));
                    t.truncate(k);
                }
            }
            Mut::Overwrite(i, b) => {
                if !t.is_empty() {
                    let k = i % t.len();
                    t[k] = b;
                }
            }
            Mut::Insert(i, b) => {
                let k = i % (t.len() + 1);
                let tail = t.split_off(k);
                t.extend(b);
                t.extend(tail);
            }
            Mut::Delete(i) => {
                if !t.is_empty() {
                    let k = i % t.len();
                    t.remove(k);
                }
            }
        }
        Utf8Case { bytes: t }
    })
}

/// Exhaustive sub-domains. Returns (count, invalid-count, first mismatch).
pub fn exhaustive(upto3: bool, four_byte_leads: bool) -> (u64, u64, Option<Vec<u8>>) {
    let mut count = 0u64;
    let mut valid = 0u64;
    let mut bad: Option<Vec<u8>> = None;
    let mut test = |b: &[u8]| {
        count += 1;
        let e = wf_utf8(b);
        if e {
            valid += 1;
        }
        if is_str(b) != e && bad.is_none() {
            bad = Some(b.to_vec());
        }
    };
    if upto3 {
        test(&[]);
        for a in 0..=255u8 {
            test(&[a]);
            for b in 0..=255u8 {
                test(&[a, b]);
                for c in 0..=255u8 {
                    test(&[a, b, c]);
                }
            }
        }
    }
    if four_byte_leads {
        for a in 0xF0..=0xFFu8 {
            for b in 0..=255u8 {
                for c in 0..=255u8 {
                    for d in 0..=255u8 {
                        test(&[a, b, c, d]);
                    }
                }
            }
        }
    }
    (count, valid, bad)
}

pub fn main(args: &Args) -> i32 {
    if let Some(p) = &args.replay {
        let text = std::fs::read_to_string(p).unwrap();
        let v: serde_json::Value = serde_json::from_str(&text).unwrap();
        let sub = v["sub"].as_str().unwrap_or("");
        let r = if sub == "utf8" || sub == "utf8-exhaustive" {
            check_utf8(&serde_json::from_value(v["case"].clone()).unwrap())
        } else {
            check(&serde_json::from_value(v["case"].clone()).unwrap())
        };
        return match r {
            Ok(()) => {
                println!("replay ok (no violation)");
                0
            }
            Err(m) => {
                println!("RT-VIOLATION property=C16 replay={} :: {}", p, m);
                1
            }
        };
    }
    let mut outs = vec![];
    outs.push(run_prop("C16", "views", args, 16, strategy(), check));
    let utf_cases = args.extra.get("utf8-cases").and_then(|v| v.parse().ok()).unwrap_or(args.cases);
    let a2 = Args { cases: utf_cases, seed: args.seed, out: None, replay: None, replays_dir: args.replays_dir.clone(), extra: Default::default() };
    outs.push(run_prop("C16", "utf8", &a2, 17, utf8_strategy(), check_utf8));
    let ex = args.extra.get("exhaustive").cloned().unwrap_or_else(|| "3".into());
    let (count, valid, bad) = match ex.as_str() {
        "0" => (0, 0, None),
        "3" => exhaustive(true, false),
        _ => exhaustive(true, true),
    };
    if let Some(b) = bad {
        let case = Utf8Case { bytes: b };
        let msg = check_utf8(&case).err().unwrap_or_default();
        let js = serde_json::json!({"property":"C16","sub":"utf8-exhaustive","message":msg,"case":case});
        let text = serde_json::to_string_pretty(&js).unwrap();
        let dir = format!("{}/C16", args.replays_dir);
        std::fs::create_dir_all(&dir).ok();
        let path = format!("{}/utf8-exhaustive-{:016x}.json", dir, hash_str(&text));
        std::fs::write(&path, text).unwrap();
        outs.push(Outcome { violations: vec![Violation { message: msg, replay: path }] });
    }
    write_summary(
        "C16",
        args,
        &outs,
        serde_json::json!({"exhaustive_strings": count, "exhaustive_valid": valid, "exhaustive_mode": ex}),
    )
}
