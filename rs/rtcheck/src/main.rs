use rtcheck::{c03, c12, c16, common};

fn main() {
    let argv: Vec<String> = std::env::args().collect();
    if argv.len() < 2 {
        eprintln!("usage: rtcheck <c03|c12|c16> [--seed N] [--cases N] [--out F] [--replay F]");
        std::process::exit(2);
    }
    let args = common::parse_args(&argv[2..]);
    let code = match argv[1].as_str() {
        "c03" => c03::main(&args),
        "c12" => c12::main(&args),
        "c16" => c16::main(&args),
        _ => 2,
    };
    std::process::exit(code);
}
