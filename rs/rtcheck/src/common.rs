//! Shared runner: proptest from a binary with a fixed seed, counters, samples, replay files.
use proptest::strategy::{Strategy, ValueTree};
use proptest::test_runner::{Config, RngAlgorithm, TestCaseError, TestError, TestRng, TestRunner};
use serde::{de::DeserializeOwned, Serialize};
use std::cell::RefCell;
use std::collections::{BTreeMap, HashSet};
use std::hash::{Hash, Hasher};

#[derive(Default)]
pub struct Stats {
    pub evaluations: u64,
    pub nontrivial: u64,
    pub distinct: HashSet<u64>,
    pub labels: BTreeMap<String, u64>,
    pub samples: Vec<serde_json::Value>,
    pub frozen: bool,
}

thread_local! {
    pub static STATS: RefCell<Stats> = RefCell::new(Stats::default());
}

pub fn label(l: &str) {
    STATS.with(|s| {
        let mut s = s.borrow_mut();
        if !s.frozen {
            *s.labels.entry(l.to_string()).or_insert(0) += 1;
        }
    })
}

/// stop recording statistics (used by the libFuzzer targets, which run for millions of iterations)
pub fn freeze() {
    STATS.with(|s| s.borrow_mut().frozen = true)
}

pub fn hash_str(s: &str) -> u64 {
    let mut h = std::collections::hash_map::DefaultHasher::new();
    s.hash(&mut h);
    h.finish()
}

/// Record one evaluated case.
pub fn record<C: Serialize>(case: &C, nontrivial: bool) {
    STATS.with(|s| {
        let mut s = s.borrow_mut();
        if s.frozen {
            return;
        }
        s.evaluations += 1;
        if nontrivial {
            s.nontrivial += 1;
            let js = serde_json::to_string(case).unwrap();
            let h = hash_str(&js);
            if s.distinct.insert(h) && s.samples.len() < 4 {
                s.samples.push(serde_json::to_value(case).unwrap());
            }
        }
    })
}

pub struct Args {
    pub seed: u64,
    pub cases: u32,
    pub out: Option<String>,
    pub replay: Option<String>,
    pub replays_dir: String,
    pub extra: BTreeMap<String, String>,
}

pub fn parse_args(args: &[String]) -> Args {
    let mut a = Args {
        seed: 0,
        cases: 1000,
        out: None,
        replay: None,
        replays_dir: "/verif/replays".into(),
        extra: BTreeMap::new(),
    };
    let mut i = 0;
    while i < args.len() {
        let k = args[i].as_str();
        let v = args.get(i + 1).cloned().unwrap_or_default();
        match k {
            "--seed" => a.seed = v.parse().unwrap(),
            "--cases" => a.cases = v.parse().unwrap(),
            "--out" => a.out = Some(v),
            "--replay" => a.replay = Some(v),
            "--replays-dir" => a.replays_dir = v,
            _ => {
                a.extra.insert(k.trim_start_matches("--").to_string(), v);
            }
        }
        i += 2;
    }
    a
}

pub struct Violation {
    pub message: String,
    pub replay: String,
}

pub struct Outcome {
    pub violations: Vec<Violation>,
}

fn seed_bytes(seed: u64, stream: u64) -> [u8; 32] {
    let mut b = [0u8; 32];
    b[..8].copy_from_slice(&seed.to_le_bytes());
    b[8..16].copy_from_slice(&stream.to_le_bytes());
    b[16..24].copy_from_slice(&0x9E37_79B9_7F4A_7C15u64.to_le_bytes());
    b
}

/// Run `cases` generated cases through `check`; on failure shrink and write a replay file.
/// `check` returns Err(message) on a property violation.
pub fn run_prop<S, C>(
    prop: &str,
    sub: &str,
    args: &Args,
    stream: u64,
    strategy: S,
    check: impl Fn(&C) -> Result<(), String>,
) -> Outcome
where
    S: Strategy<Value = C>,
    C: Serialize + DeserializeOwned + std::fmt::Debug + Clone,
{
    let mut out = Outcome { violations: vec![] };
    let config = Config {
        cases: args.cases,
        failure_persistence: None,
        max_shrink_iters: 4000,
        ..Config::default()
    };
    let rng = TestRng::from_seed(RngAlgorithm::ChaCha, &seed_bytes(args.seed, stream));
    let mut runner = TestRunner::new_with_rng(config, rng);
    let res = runner.run(&strategy, |c| match check(&c) {
        Ok(()) => Ok(()),
        Err(m) => {
            // stop counting during shrinking
            STATS.with(|s| s.borrow_mut().frozen = true);
            Err(TestCaseError::fail(m))
        }
    });
    STATS.with(|s| s.borrow_mut().frozen = false);
    match res {
        Ok(()) => {}
        Err(TestError::Fail(reason, minimal)) => {
            let js = serde_json::json!({
                "property": prop, "sub": sub, "message": reason.message(), "case": minimal,
            });
            let text = serde_json::to_string_pretty(&js).unwrap();
            let dir = format!("{}/{}", args.replays_dir, prop);
            std::fs::create_dir_all(&dir).ok();
            let path = format!("{}/{}-{:016x}.json", dir, sub, hash_str(&text));
            std::fs::write(&path, text).unwrap();
            out.violations.push(Violation {
                message: format!("{}: {}", sub, reason.message()),
                replay: path,
            });
        }
        Err(TestError::Abort(r)) => {
            eprintln!("INCONCLUSIVE {} {}: generator aborted: {}", prop, sub, r.message());
            std::process::exit(2);
        }
    }
    out
}

/// Generate (without checking) one value, for debugging distributions.
#[allow(dead_code)]
pub fn sample_one<S: Strategy>(s: &S, seed: u64) -> S::Value {
    let rng = TestRng::from_seed(RngAlgorithm::ChaCha, &seed_bytes(seed, 0));
    let mut runner = TestRunner::new_with_rng(Config::default(), rng);
    s.new_tree(&mut runner).unwrap().current()
}

pub fn replay_case<C: DeserializeOwned>(path: &str) -> (String, C) {
    let text = std::fs::read_to_string(path).expect("replay file");
    let v: serde_json::Value = serde_json::from_str(&text).expect("replay json");
    let sub = v["sub"].as_str().unwrap_or("").to_string();
    let c: C = serde_json::from_value(v["case"].clone()).expect("replay case");
    (sub, c)
}

pub fn write_summary(prop: &str, args: &Args, outcomes: &[Outcome], extra: serde_json::Value) -> i32 {
    let mut viol = vec![];
    for o in outcomes {
        for v in &o.violations {
            println!("RT-VIOLATION property={} replay={} :: {}", prop, v.replay, v.message);
            viol.push(serde_json::json!({"message": v.message, "replay": v.replay}));
        }
    }
    let summary = STATS.with(|s| {
        let s = s.borrow();
        serde_json::json!({
            "property": prop,
            "seed": args.seed,
            "evaluations": s.evaluations,
            "nontrivial": s.nontrivial,
            "distinct_nontrivial": s.distinct.len(),
            "labels": s.labels,
            "samples": s.samples,
            "violations": viol,
            "extra": extra,
        })
    });
    let text = serde_json::to_string_pretty(&summary).unwrap();
    if let Some(p) = &args.out {
        std::fs::write(p, &text).unwrap();
    } else {
        println!("{}", text);
    }
    if viol.is_empty() {
        0
    } else {
        1
    }
}
