"""Runs the diplomat-tool binary (one fresh process per backend run) and classifies the outcome."""
import os, shutil, subprocess
from . import build

BACKENDS = ["c", "cpp", "js", "dart", "kotlin", "nanobind", "demo_gen"]

DEFAULT_CONFIG = {
    "kotlin": ["lib_name=somelib", "kotlin.domain=dev.diplomattest"],
    "nanobind": ["lib_name=somelib"],
}


class Run:
    def __init__(self, backend, rc, out, err, outdir):
        self.backend, self.rc, self.stdout, self.stderr, self.outdir = backend, rc, out, err, outdir

    @property
    def panicked(self):
        return "panicked at" in self.stderr or self.rc == 101 or self.rc < 0 or self.rc in (134, 139)

    @property
    def lowering_errors(self):
        return [l for l in self.stderr.split("\n") if l.startswith("Lowering error in ")]

    @property
    def backend_errors(self):
        return "Found errors whilst generating" in self.stderr

    @property
    def ok(self):
        return self.rc == 0

    def classify(self):
        if self.panicked:
            return "panic"
        if self.rc == 0:
            return "ok"
        if self.lowering_errors:
            return "lowering-error"
        if self.backend_errors:
            return "backend-error"
        return "other-exit-%d" % self.rc

    def files(self):
        out = {}
        for dp, _, fns in os.walk(self.outdir):
            for fn in fns:
                p = os.path.join(dp, fn)
                with open(p, "rb") as f:
                    out[os.path.relpath(p, self.outdir)] = f.read()
        return out


def run_backend(art, backend, entry, outdir, config=None, config_file=None, timeout=120, cwd=None, backtrace=False):
    if os.path.exists(outdir):
        shutil.rmtree(outdir)
    os.makedirs(outdir)
    cmd = [art["tool"], backend, outdir, "--entry", entry, "--silent"]
    cfgs = list(DEFAULT_CONFIG.get(backend, [])) if config is None else list(config)
    for c in cfgs:
        cmd += ["--config", c]
    cmd += ["--config-file", config_file or os.path.join(os.path.dirname(entry), "no-such-config.toml")]
    env = dict(os.environ)
    env["RUST_BACKTRACE"] = "1" if backtrace else "0"
    env["NO_COLOR"] = "1"
    try:
        p = subprocess.run(cmd, stdout=subprocess.PIPE, stderr=subprocess.PIPE, text=True, timeout=timeout, env=env,
                           cwd=cwd or os.path.dirname(entry))
    except subprocess.TimeoutExpired:
        raise build.Inconclusive("diplomat-tool %s timed out" % backend)
    return Run(backend, p.returncode, p.stdout, p.stderr, outdir)
