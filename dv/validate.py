"""python3-vt -m dv.validate : validates MANIFEST.json and evidence/*.json against the given schemas."""
import glob, json, sys
import jsonschema

def main():
    ok = True
    ms = json.load(open("/root/.vp/MANIFEST.schema.json"))
    es = json.load(open("/root/.vp/EVIDENCE.schema.json"))
    try:
        jsonschema.validate(json.load(open("/verif/MANIFEST.json")), ms)
        print("MANIFEST ok")
    except Exception as e:
        ok = False
        print("MANIFEST INVALID:", str(e)[:500])
    for p in sorted(glob.glob("/verif/evidence/*.json")):
        try:
            jsonschema.validate(json.load(open(p)), es)
            print(p, "ok")
        except Exception as e:
            ok = False
            print(p, "INVALID:", str(e)[:500])
    sys.exit(0 if ok else 1)

main()
