"""C++ half of the end-to-end engine: a generated C++ driver that talks only to the generated class API."""
import os, subprocess
from . import build, compilers, tool, e2e
from .gen import ir
from .e2e import C_PRIM, INT_RANGE, ser, enum_disc


def cname(prog, name):
    """C++ API name of a custom type: `cpp_ns` / `cpp_name` are recorded by the decorator that placed namespace / rename attributes"""
    it = ir.find_item(prog, name)
    n = it.get("cpp_name") or name
    return ("::" + it["cpp_ns"] + "::" + n) if it.get("cpp_ns") else n


def mname(m):
    return m.get("cpp_name") or m["name"]


def cpp_type(prog, t):
    """C++ API spelling of a value type (used inside std::optional<...> constructors and span element types)"""
    k = t[0]
    if k == "prim":
        return C_PRIM[t[1]]
    if k in ("enum", "struct"):
        return cname(prog, t[1])
    if k == "slice":
        return "diplomat::span<%s%s>" % ("" if t[2] else "const ", C_PRIM[t[3]])
    if k == "str":
        return "std::u16string_view" if t[2] == "str16" else "std::string_view"
    raise ValueError(t)


def utf8_ok(b):
    try:
        bytes(b).decode("utf-8")
        return True
    except UnicodeDecodeError:
        return False


def direct_utf8_params(m):
    return [q[0] for q in m["params"] if q[1][0] == "str" and q[1][2] == "utf8"]


def call_rejected(m, c):
    """a direct &str parameter that is not well-formed UTF-8 must be rejected by the C++ layer"""
    return any(not utf8_ok(c["args"][n]["bytes"]) for n in direct_utf8_params(m))


class CppGen:
    def __init__(self, prog):
        self.prog = prog
        self.pre, self.post = [], []
        self.n = 0
        self.mut_after = []

    def tmp(self, base="t"):
        self.n += 1
        return "%s%d" % (base, self.n)

    def prim(self, p, v):
        if p == "bool":
            return "true" if v else "false"
        if p == "f32":
            return "dv_f32(0x%08xu)" % v
        if p == "f64":
            return "dv_f64(0x%016xull)" % v
        ct = C_PRIM[p]
        if p in ("i64", "isize") and v == -2 ** 63:
            return "((%s)(-9223372036854775807ll - 1))" % ct
        if v < 0:
            return "((%s)%dll)" % (ct, v)
        return "((%s)%dull)" % (ct, v)

    def arg(self, t, v):
        k = t[0]
        if k == "prim":
            return self.prim(t[1], v)
        if k == "enum":
            return "%s(%s::%s)" % (cname(self.prog, t[1]), cname(self.prog, t[1]), v)
        if k == "struct":
            it = ir.find_item(self.prog, t[1])
            return "%s{ %s }" % (cname(self.prog, t[1]), ", ".join(self.arg(f[1], v[f[0]]) for f in it["fields"]))
        if k == "ref":
            o = self.tmp("o")
            self.pre.append("std::unique_ptr<%s> %s = %s::dvnew(%du);" % (cname(self.prog, t[3]), o, cname(self.prog, t[3]), v["id"]))
            return "*%s" % o
        if k == "opt":
            if t[1][0] == "ref":
                if v is None:
                    return "nullptr"
                return "&(%s)" % self.arg(t[1], v["some"])
            inner = cpp_type(self.prog, t[1])
            if v is None:
                return "std::optional<%s>(std::nullopt)" % inner
            return "std::optional<%s>(%s)" % (inner, self.arg(t[1], v["some"]))
        if k == "slice":
            p = t[3]
            n = len(v["elems"])
            a = self.tmp("a")
            cty = C_PRIM[p]
            ety = cty if t[2] else "const " + cty
            if t[1] == "owned":
                # Rust takes ownership and frees with its allocator: the buffer comes from diplomat_alloc, as for a C caller
                if n == 0:
                    return "diplomat::span<%s>((%s*)nullptr, 0)" % (cty, cty)
                self.pre.append("%s* %s = (%s*)diplomat_alloc(%d * sizeof(%s), alignof(%s));" % (cty, a, cty, n, cty, cty))
                for i, x in enumerate(v["elems"]):
                    self.pre.append("%s[%d] = %s;" % (a, i, self.prim(p, x)))
                return "diplomat::span<%s>(%s, %d)" % (cty, a, n)
            if n == 0:
                if v.get("null"):
                    # an empty slice spelled either as (nullptr, 0) or as a default-constructed span (std::span() is empty)
                    self.n += 1
                    if self.n % 2:
                        return "diplomat::span<%s>()" % ety
                    return "diplomat::span<%s>((%s*)nullptr, 0)" % (ety, ety)
                self.pre.append("%s %s[1] = { 0 };" % (cty, a))
                return "diplomat::span<%s>(%s, 0)" % (ety, a)
            self.pre.append("%s %s[%d] = { %s };" % (cty, a, n, ", ".join(self.prim(p, x) for x in v["elems"])))
            if t[2]:
                self.mut_after.append((a, n, p))
            return "diplomat::span<%s>(%s, %d)" % (ety, a, n)
        if k == "str":
            a = self.tmp("s")
            if t[1] == "owned":
                ct, view = ("char16_t", "std::u16string_view") if t[2] == "str16" else ("char", "std::string_view")
                vals = v["units"] if t[2] == "str16" else v["bytes"]
                if not vals:
                    return "%s()" % view
                self.pre.append("%s* %s = (%s*)diplomat_alloc(%d * sizeof(%s), alignof(%s));" % (ct, a, ct, len(vals), ct, ct))
                for i, x in enumerate(vals):
                    self.pre.append("%s[%d] = (%s)0x%x;" % (a, i, ct, x))
                return "%s(%s, %d)" % (view, a, len(vals))
            if t[2] == "str16":
                n = len(v["units"])
                if n == 0:
                    return "std::u16string_view()" if v.get("null") else "std::u16string_view(u\"\", 0)"
                self.pre.append("char16_t %s[%d] = { %s };" % (a, n, ", ".join("(char16_t)0x%x" % u for u in v["units"])))
                return "std::u16string_view(%s, %d)" % (a, n)
            n = len(v["bytes"])
            if n == 0:
                return "std::string_view()" if v.get("null") else "std::string_view(\"\", 0)"
            self.pre.append("char %s[%d] = { %s };" % (a, n, ", ".join("(char)0x%x" % b for b in v["bytes"])))
            return "std::string_view(%s, %d)" % (a, n)
        if k == "strs":
            items = []
            for item in v["items"]:
                if t[1] == "str16":
                    items.append(self.arg(["str", None, "str16", "std"], {"units": item, "null": False}))
                else:
                    items.append(self.arg(["str", None, "str8", "std"], {"bytes": item, "null": False}))
            ety = "std::u16string_view" if t[1] == "str16" else "std::string_view"
            a = self.tmp("v")
            if not items:
                self.pre.append("%s %s[1];" % (ety, a))
                return "diplomat::span<const %s>(%s, 0)" % (ety, a)
            self.pre.append("%s %s[%d] = { %s };" % (ety, a, len(items), ", ".join(items)))
            return "diplomat::span<const %s>(%s, %d)" % (ety, a, len(items))
        raise ValueError(t)

    def show(self, t, e):
        """C++ statements printing e of IR type t through the class API"""
        k = t[0]
        if k == "prim":
            p = t[1]
            if p == "bool":
                return 'printf("%%s", (%s) ? "true" : "false");' % e
            if p == "f32":
                return 'printf("f32:0x%%08x", dv_bits32(%s));' % e
            if p == "f64":
                return 'printf("f64:0x%%016llx", (unsigned long long)dv_bits64(%s));' % e
            if p == "DiplomatChar":
                return 'printf("c%%u", (unsigned)(%s));' % e
            if p in ("u8", "u16", "u32", "u64", "usize", "DiplomatByte"):
                return 'printf("%%llu", (unsigned long long)(%s));' % e
            return 'printf("%%lld", (long long)(%s));' % e
        if k == "enum":
            return 'printf("E%%d", (int)(%s).AsFFI());' % e
        if k == "struct":
            it = ir.find_item(self.prog, t[1])
            out = 'printf("{");'
            for i, f in enumerate(it["fields"]):
                out += 'printf("%s%s=");' % ("," if i else "", f[0])
                out += self.show(f[1], "(%s).%s" % (e, f[0]))
            return out + 'printf("}");'
        if k == "ref":
            return 'printf("@%%u", (unsigned)(%s).dvid());' % e
        if k == "box":
            return 'printf("@%%u", (unsigned)(%s)->dvid());' % e
        if k == "opt":
            if t[1][0] in ("ref", "box"):
                return 'if (!(%s)) { printf("null"); } else { printf("@%%u", (unsigned)(%s)->dvid()); }' % (e, e)
            return 'if ((%s).has_value()) { printf("some("); %s printf(")"); } else { printf("none"); }' % (e, self.show(t[1], "(*(%s))" % e))
        if k == "slice":
            i = self.tmp("i")
            return 'printf("["); for (size_t %s = 0; %s < (%s).size(); %s++) { if (%s) printf(","); %s } printf("]");' % (
                i, i, e, i, i, self.show(["prim", t[3]], "(%s).data()[%s]" % (e, i)))
        if k == "str":
            i = self.tmp("i")
            if t[2] == "str16":
                return 'printf("w["); for (size_t %s = 0; %s < (%s).size(); %s++) { if (%s) printf(","); printf("%%04x", (unsigned)(%s)[%s]); } printf("]");' % (i, i, e, i, i, e, i)
            return 'printf("s\\""); for (size_t %s = 0; %s < (%s).size(); %s++) { printf("%%02x", (unsigned)(unsigned char)(%s)[%s]); } printf("\\"");' % (i, i, e, i, e, i)
        if k == "result":
            r = self.tmp("r")
            okv = 'printf("()");' if t[1][0] == "unit" else "{ auto ov = std::move(%s).ok(); auto& v = dv_get(*ov); %s }" % (r, self.show(t[1], "v"))
            errv = 'printf("()");' if t[2][0] == "unit" else "{ auto ev = std::move(%s).err(); auto& v = dv_get(*ev); %s }" % (r, self.show(t[2], "v"))
            return '{ auto&& %s = %s; if (%s.is_ok()) { printf("ok("); %s printf(")"); } else { printf("err("); %s printf(")"); } }' % (r, e, r, okv, errv)
        if k == "unit":
            return 'printf("()");'
        raise ValueError(t)


CPP_HELPERS = '''#include <cstdio>
#include <cstring>
#include <cstdint>
#include <optional>
#include <string>
#include <string_view>
#include <memory>
#include <functional>
static inline float dv_f32(uint32_t b) { float f; memcpy(&f, &b, 4); return f; }
static inline double dv_f64(uint64_t b) { double f; memcpy(&f, &b, 8); return f; }
static inline uint32_t dv_bits32(float f) { uint32_t b; memcpy(&b, &f, 4); return b; }
static inline uint64_t dv_bits64(double f) { uint64_t b; memcpy(&b, &f, 8); return b; }
template<class T> T& dv_get(T& x) { return x; }
template<class T> T& dv_get(std::reference_wrapper<T>& x) { return x.get(); }
extern "C" void dv_log_dump(void);
extern "C" void dv_drops_dump(void);
extern "C" void* diplomat_alloc(size_t size, size_t align);
struct DvDrop { const char* uid; int n; explicit DvDrop(const char* u) : uid(u), n(0) {} ~DvDrop() { printf("cbdrop %s %d\\n", uid, n); } };
'''


def cpp_callback(g, prog, uid, t, invocations):
    """a std::function argument: prints what it receives, answers the planned values; the captured DvDrop prints when the
    function object Rust owns is destroyed (exactly once, whether the binding moved or copied it)"""
    ret = "void" if t[2][0] == "unit" else cpp_type(prog, t[2])
    ptypes = [cpp_type(prog, a) for a in t[1]]
    # `k` is state the function object owns by value: a binding that invokes a copy of the std::function loses it between calls
    body = 'int j = k++; d->n++; printf("cbin %s %%d", j);' % uid
    h = CppGen(prog)
    for i, a in enumerate(t[1]):
        body += ' printf(" a%d="); %s' % (i, h.show(a, "a%d" % i))
    body += ' printf("\\n");'
    if t[2][0] != "unit":
        body += " switch (j) {"
        for j, inv in enumerate(invocations):
            body += " case %d: return %s;" % (j, h.arg(t[2], inv["ret"]))
        body += " } return %s();" % ret
    assert not h.pre
    return 'std::function<%s(%s)>([d = std::make_shared<DvDrop>("%s"), k = 0](%s) mutable -> %s { %s })' % (
        ret, ", ".join(ptypes), uid, ", ".join("%s a%d" % (ty, i) for i, ty in enumerate(ptypes)), ret, body)


def render_cpp(prog, plan, header_names):
    ms = e2e.methods_in_order(prog)
    src = CPP_HELPERS + "".join('#include "%s"\n' % h for h in header_names)
    src += "int main() {\n  setvbuf(stdout, NULL, _IONBF, 0);\n"
    for p_, (mod, it, impl, m) in zip(plan, ms):
        wparam = any(q[1][0] == "write" for q in m["params"])
        utf8 = bool(direct_utf8_params(m))
        for k, c in enumerate(p_["calls"]):
            g = CppGen(prog)
            args = []
            for q in m["params"]:
                if q[1][0] == "write":
                    continue
                if q[1][0] == "cb":
                    args.append(cpp_callback(g, prog, "%d_%d_%s" % (p_["mid"], k, q[0]), q[1], c.get("cbs", {}).get(q[0], [])))
                else:
                    args.append(g.arg(q[1], c["args"][q[0]]))
            if m["self"] is None:
                callee = "%s::%s" % (cname(prog, it["name"]), mname(m))
            elif it["kind"] == "opaque":
                o = g.tmp("self")
                g.pre.append("std::unique_ptr<%s> %s = %s::dvnew(%du);" % (cname(prog, it["name"]), o, cname(prog, it["name"]), c["self"]["id"]))
                callee = "%s->%s" % (o, mname(m))
            elif it["kind"] == "enum":
                callee = "%s(%s::%s).%s" % (cname(prog, it["name"]), cname(prog, it["name"]), c["self"], mname(m))
            else:
                callee = "(%s).%s" % (g.arg(["struct", it["name"], []], c["self"]), mname(m))
            src += "  {\n"
            for s_ in g.pre:
                src += "    " + s_ + "\n"
            call = "%s(%s)" % (callee, ", ".join(args))
            # effective IR type of what the C++ method returns
            ret = m["ret"]
            body = ""
            if wparam:
                # methods with a write parameter return std::string (or result<std::string, E>)
                if ret is None:
                    body = 'printf("() write=s\\""); for (unsigned char ch : r) printf("%02x", (unsigned)ch); printf("\\"");'
                elif ret[0] == "result":
                    errv = 'printf("()");' if ret[2][0] == "unit" else "{ auto ev = std::move(r).err(); auto& v = dv_get(*ev); %s }" % g.show(ret[2], "v")
                    body = ('if (r.is_ok()) { auto s = std::move(r).ok().value(); printf("ok(()) write=s\\""); for (unsigned char ch : s) printf("%%02x", (unsigned)ch); printf("\\""); } '
                            'else { printf("err("); %s printf(") write=s\\"SKIP\\""); }') % errv
                elif ret[0] == "opt" and ret[1][0] == "unit":
                    # Option<()> + write: std::optional<std::string>
                    body = ('if (r.has_value()) { printf("some(()) write=s\\""); for (unsigned char ch : *r) printf("%02x", (unsigned)ch); printf("\\""); } '
                            'else { printf("none write=s\\"SKIP\\""); }')
                else:
                    body = 'printf("unsupported-write-shape");'
            elif ret is None:
                body = 'printf("()");'
            else:
                body = g.show(ret, "r")

            if ret is None and not wparam:
                inner = "%s; %s" % ("rr_dummy" if False else "", body)
            # the call comes first: callbacks print their own lines while it runs
            head = 'printf("ret %d %d ");' % (p_["mid"], k)
            if utf8:
                src += "    auto rr = %s;\n    %s\n" % (call, head)
                if ret is None and not wparam:
                    src += '    if (rr.is_err()) { printf("utf8err"); } else { %s }\n' % body
                else:
                    src += '    if (rr.is_err()) { printf("utf8err"); } else { auto ov = std::move(rr).ok(); auto&& r = dv_get(*ov); %s }\n' % body
            else:
                if ret is None and not wparam:
                    src += "    %s;\n    %s\n    %s\n" % (call, head, body)
                else:
                    src += "    auto&& r = %s;\n    %s\n    %s\n" % (call, head, body)
            for (a, n, p) in ([] if call_rejected(m, c) else g.mut_after):
                src += '    printf(" mut=["); for (size_t i = 0; i < %d; i++) { if (i) printf(","); %s } printf("]");\n' % (n, g.show(["prim", p], "%s[i]" % a))
            src += '    printf("\\n");\n  }\n'
    src += "  dv_log_dump();\n  dv_drops_dump();\n  return 0;\n}\n"
    return src


def build_and_run(art, work, prog, plan, std="c++17", sanitize=True, lib=None, rust_src=None, cxx="g++", opt="-O0"):
    if lib is None:
        rust_src = e2e.render_rust(prog, plan, reject=call_rejected)
        entry = os.path.join(work, "lib.rs")
        open(entry, "w").write(rust_src)
        lib = os.path.join(work, "libdvbridge.a")
        ok, err = compilers.rustc(art, entry, lib, crate_type="staticlib", emit=None)
        if not ok:
            return {"status": "rustc-failed", "stderr": err, "rust_src": rust_src}
    entry = os.path.join(work, "lib.rs")
    r = tool.run_backend(art, "cpp", entry, os.path.join(work, "cpp"))
    if not r.ok:
        return {"status": "tool-" + r.classify(), "stderr": r.stderr, "rust_src": rust_src, "lib": lib}
    headers = []
    for dp, _, fns in os.walk(r.outdir):
        headers += [os.path.relpath(os.path.join(dp, h), r.outdir) for h in fns if h.endswith(".hpp") and not h.endswith(".d.hpp") and h != "diplomat_runtime.hpp"]
    headers.sort()
    src = render_cpp(prog, plan, headers)
    f = os.path.join(work, "driver_%s.cpp" % std.replace("+", "p"))
    open(f, "w").write(src)
    exe = os.path.join(work, "driver_" + std.replace("+", "p"))
    flags = ["-std=" + std, opt, "-w", "-I", r.outdir]
    if sanitize:
        flags += ["-fsanitize=address,undefined", "-fno-sanitize-recover=undefined", "-g"]
    p = subprocess.run([cxx] + flags + [f, lib, "-lpthread", "-ldl", "-lm", "-o", exe], stdout=subprocess.PIPE, stderr=subprocess.PIPE, text=True)
    if p.returncode != 0:
        return {"status": "cc-failed", "stderr": p.stderr[-3000:], "rust_src": rust_src, "cpp_src": src, "lib": lib}
    env = dict(os.environ)
    env["ASAN_OPTIONS"] = "detect_leaks=0:abort_on_error=0"
    try:
        q = subprocess.run([exe], stdout=subprocess.PIPE, stderr=subprocess.PIPE, text=True, timeout=120, env=env, errors="replace")
    except subprocess.TimeoutExpired:
        raise build.Inconclusive("C++ e2e driver timed out")
    return {"status": "ran", "rc": q.returncode, "stdout": q.stdout, "stderr": q.stderr, "rust_src": rust_src, "cpp_src": src, "lib": lib}
