import sys
from . import build

def main():
    try:
        build.ensure_repo_artifacts()
        for fl in ("release", "asan"):
            build.ensure_rs("rtcheck", fl)
        build.ensure_rs("dv-probe", "release")
    except build.Inconclusive as e:
        print("setup failed:", e)
        sys.exit(1)
    print("setup ok")

main()
