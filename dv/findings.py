"""known_findings.json is committed and never written at run time.

entry: {property, signature, status: "known"|"fixed", commit?, what}
A violation is matched against `known` entries by its signature string (exact match on the structural
signature the check computes for the root cause, never a hash of one input)."""
import json, os

VERIF = os.path.dirname(os.path.dirname(os.path.abspath(__file__)))


def load():
    p = os.path.join(VERIF, "known_findings.json")
    if not os.path.exists(p):
        return []
    return json.load(open(p))["findings"]


def known_for(pid):
    return [f for f in load() if f["property"] == pid and f["status"] == "known"]


def match(pid, signature):
    for f in known_for(pid):
        if f["signature"] == signature:
            return f
    return None
