"""Regenerates MANIFEST.json from the table below (python3-vt -m dv.manifest_gen)."""
import json, os

VERIF = os.path.dirname(os.path.dirname(os.path.abspath(__file__)))

CLAIMED = {
    "C03": dict(
        engine="R+P", technique="stateful property-based testing (proptest op sequences with a drop ledger; ASan+LSan leg)",
        text="Generated create/convert/clone/borrow/drop histories over the runtime's FFI-safe result/option/owned-slice/callback types with drop-recording payloads, interleaved with foreign-side scratch buffers (diplomat_alloc/diplomat_free pairs, zero bytes included), results with one plain-data arm and stateless callbacks (NULL data, destructor counted); the ledger must show every payload dropped exactly once and only with its owner. Exploration: finds double drops/leaks on the histories generated, proves nothing beyond them.",
        note="Trusted: proptest, rustc, ASan/LSan. Payload ids are thread-local; foreign-built values use the documented repr(C) layouts.",
        ref="DESIGN.md §2 C03"),
    "C12": dict(
        engine="R+P", technique="model-based property testing with injected grow() outcomes (proptest; ASan leg with exactly-sized buffers) plus a Hypothesis end-to-end leg through the generated C and C++ APIs",
        text="Generated chunk/flush sequences against caller-supplied (scripted grow outcomes), Rust-owned and fixed-buffer writers; after every operation the buffer, len, cap, sticky flag, accessor results, grow requests and guard bytes are compared with a reference model. End to end, generated chunk lists written by a real bridge method (repository macro + runtime) are read back through the generated C header (Rust-owned writer, exactly-sized fixed buffers under ASan) and the generated C++ class (std::string writer) and compared with the same model. Exploration over inputs and fault sequences.",
        note="Trusted: the reference model (Vec<u8> + sticky flag), proptest, ASan. Fields are read through the documented repr(C) mirror.",
        ref="DESIGN.md §2 C12"),
    "C16": dict(
        engine="R", technique="round-trip property testing + exhaustive enumeration against an independent UTF-8 table validator",
        text="Round trips of &[T]/&mut [T]/Box<[T]>/&str/Box<str> through their FFI views for 13 element types and generated lengths/bit patterns (whole buffers, sub-slices starting at elements 1..4, and empty windows of live buffers, pointer identity included), NULL+0 views, diplomat_alloc/free pairs; diplomat_is_str compared with an independent well-formed-UTF-8 validator exhaustively on all strings of length <=3 (thorough: plus all 4-byte strings with lead >= 0xF0) and on generated near-valid longer strings.",
        note="Trusted: the hand-written Unicode table 3-7 validator, proptest, ASan. Exhaustive only for the stated sub-domains.",
        ref="DESIGN.md §2 C16"),
}

CLAIMED["C15"] = dict(
    engine="P", technique="grammar-based program generation (Hypothesis) with a subprocess crash oracle and structural reduction",
    text="Generated bridge programs per backend feature profile are run through the diplomat-tool binary for every backend x config variant; any panic/abort/exit 101 after lowering is a violation, reduced structurally to a minimal lib.rs. Exploration only: finds reachable panic arms in the generated grammar, cannot show their absence.",
    note="Trusted: classification of the tool's exit status/stderr. Known findings (known_findings.json) are steered around by construction and each re-confirmed by a dedicated probe.",
    ref="DESIGN.md §2 C15")

CLAIMED["C14"] = dict(
    engine="P", technique="metamorphic property-based testing over generated programs (Hypothesis) with byte-wise directory comparison",
    text="Metamorphic relations (re-run in a fresh process; permutation of modules/items; insertion of an unreferenced type - plain, with outgoing references or callbacks, disabled for every backend, a same-named type in a module of its own, an identical method-less struct in a second namespace, a callback-taking struct next to a trait; insertion of non-bridge items incl. plain modules with traits and look-alike attributes) on generated programs with random abi_rename/rename/disable placement, for all seven backends; any byte difference in the compared files is a violation. Exploration of the input space; hash-seed dependence only as far as fresh processes expose it.",
    note="Trusted: the list of aggregate files that may legitimately change when a type is added (index.mjs/index.d.ts, lib.g.dart, <lib>_ext.cpp).",
    ref="DESIGN.md §2 C14")

CLAIMED["C09"] = dict(
    engine="P", technique="grammar-based program generation (Hypothesis) with compiler oracles (rustc + real proc macro, gcc, g++, node) and structural reduction",
    text="Generated accepted programs (type cycles, multi-module, keyword identifiers, abi_rename/rename/namespace attributes) plus the repository's own bridges: the macro expansion must type-check, every C header must compile alone as C11, every C++ header alone as C++17 (thorough: and C++20; quick: C++20 for the all-headers TU), all headers in a random order in one TU, and every JS module must link under Node with a stub wasm module. Exploration.",
    note="Trusted: gcc/g++ 12, node 20 and rustc as the definition of 'builds'. Known findings are steered around by construction (identifier pools) and re-confirmed by probes.",
    ref="DESIGN.md §2 C09")

CLAIMED["C05"] = dict(
    engine="P", technique="grammar-based generation of valid programs plus single-fault mutation (Hypothesis), oracle = documented rule table, evaluated in-process through the public diplomat_core API and cross-checked on the diplomat-tool binary",
    text="Both directions of the gate: programs built valid-by-construction for a drawn feature profile must lower cleanly; each of ~80 (rule x position) single-fault mutants (incl. callback / trait / DiplomatWrite placement, self kinds, std Option of strings and slices in nested positions, elided returns through &self or a parameter on every kind of owner type, rule violations inside bridged trait methods, iterables without an iterator) must be rejected with an error whose context names the planted Type::method (or type). Exploration over programs x profiles x faults.",
    note="Trusted: the fault table transcribed from the book and the property statement; dv-probe (a thin JSON wrapper over hir::TypeContext::from_syn). Rules on which the docs are silent are not asserted.",
    ref="DESIGN.md §2 C05")

CLAIMED["C06"] = dict(
    engine="P", technique="grammar-based program generation (Hypothesis) with a differential oracle: nm of the compiled proc-macro output vs symbols parsed from each backend's output vs a reference naming model",
    text="For generated programs with random abi_rename/rename/disable placement: the symbols exported by the crate compiled with the real proc macro must equal the documented naming model, and for each of the seven backends the set of symbols declared and the set called in the generated code must both equal the model's enabled methods plus opaque destructors. Exploration.",
    note="Trusted: the per-backend symbol extractors (regular expressions over generated text, validated on feature_tests output) and the naming model transcribed from book/src/abi.md.",
    ref="DESIGN.md §2 C06")

CLAIMED["C13"] = dict(
    engine="P", technique="metamorphic + model-based property testing: generated condition formulas evaluated by an independent evaluator, compared with tool output byte-wise and through symbol extraction",
    text="Generated formulas (depth <= 3 over *, backend names, supports= flags, not/any/all) on modules, types, impls and methods. Per backend the output must be byte-identical to the output of the program in which each formula is replaced by its truth value (`*` or attribute removed), a rename whose condition holds (own, or an impl block's pattern) must show in the C++/JS/Dart/Python output, nested disables (inherited plus own) must mean disabled, the symbols used must equal the model's enabled set under inheritance, and nm must still show every function. A second leg checks 24k (quick) formula evaluations in-process against the evaluator with random supports tables. Exploration.",
    note="Trusted: the evaluator (book/src/attrs.md), the run-time calibration of supports= atoms by canary methods, the `*` base case (validated by the canary), the symbol extractors.",
    ref="DESIGN.md §2 C13")

CLAIMED["C17"] = dict(
    engine="P", technique="model-based + metamorphic property testing over generated configuration assignments (Hypothesis), oracle = reference precedence model and a canonical single-source run",
    text="Generated assignments of distinct values to the three configuration sources (kebab/snake config.toml, --config, #[diplomat::config] on struct/mod/impl) in shared, scoped and foreign-scoped key forms for every documented key and backend; the output must equal the canonical run with only the model's effective value, and lib_name / kotlin.domain are also observed directly in paths and Native.load. Exploration over configurations.",
    note="Trusted: the reference precedence model (scoped beats shared; toml < cli < attribute) and the canonical --config base case.",
    ref="DESIGN.md §2 C17")

CLAIMED["C11"] = dict(
    engine="P", technique="differential property testing over generated enums: rustc (through the real proc macro) as ground truth vs executed C / C++ / JS bindings and parsed Dart / Kotlin / nanobind tables",
    text="Generated enums with arbitrary i32 discriminant patterns: every binding's numeric value per variant must equal rustc's, and the value-to-variant direction must select the same name (C++ FromFFI executed, JS constructor and a call through an identity wasm stub executed, Dart/Kotlin from-Rust expressions parsed and positional forms accepted only for 0..n-1 enums). Exploration.",
    note="Trusted: rustc's `as isize`; gcc/g++/node executing the generated code; the Dart/Kotlin/nanobind text parsers (Dart, Kotlin and Python bindings are not executed here).",
    ref="DESIGN.md §2 C11")

CLAIMED["C07"] = dict(
    engine="P", technique="grammar-based program generation (Hypothesis) with static translation validation: parsed Dart/Kotlin native declarations vs a reference C-ABI model",
    text="Generated programs in the Dart and Kotlin profiles (Dart: with special-method attributes, cmp::Ordering = i8); every @ffi.Native signature, ffi.Struct/Union class, JNA interface function, Structure/Union class (incl. getFieldOrder) JNA callback interface and bridged-trait vtable / method interface (Runner_*.invoke) is parsed, resolved recursively and compared with the model's C ABI of the function / repr(C) struct: arity, order, width, signedness, float kind, pointer vs by-value, record shapes. Exploration; declarations are validated as text, not executed.",
    note="Trusted: the two text parsers, the reference ABI model (validated against compiled code by C01), the fixed table of accepted scalar spellings. No Dart/Kotlin toolchain exists in the sandbox.",
    ref="DESIGN.md §2 C07")

CLAIMED["C08"] = dict(
    engine="P", technique="property-based differential testing: generated structs and values, generated JS executed in Node against a stub wasm memory vs a rustc-computed repr(C) layout oracle and a reference model of the wasm argument ABI",
    text="Generated struct definitions (any field order / padding pattern, nesting, options, pointers, slices) and field values; the generated JS's written bytes, read-back values, buffer size/alignment, flattened argument lists and (spec ABI) the {payload, is_ok} buffer of an optional struct parameter, and the receive buffers of Result<Sa,Sb> / Result<(),Sb> / Option<Sa> returns (allocation, alignment, position of is_ok, arm taken) are compared with rustc's offset_of!/size_of! for the 32-bit-pointer rendering of the same structs (real diplomat_runtime::DiplomatOption) and with the wasm ABI model, for js.abi = legacy and spec. Exploration.",
    note="Trusted: rustc layout of the pointer-narrowed structs on x86-64 as a stand-in for wasm32; the legacy flattening model transcribed from docs/wasm_abi_quirks.md (no legacy-ABI compiler available); node executing the generated modules.",
    ref="DESIGN.md §2 C08")

CLAIMED["C04"] = dict(
    engine="P", technique="model-based property testing over generated method signatures (Hypothesis): reference outlives model cross-validated by rustc, compared with the tool's borrow map and the edge lists emitted by managed backends",
    text="Generated signatures (up to 4 method lifetimes + impl lifetimes, arbitrary declared bounds, implied bounds from references and definitions, 'static, anonymous inputs, optional and nested borrowing structs): the tool's borrow map must equal, per output lifetime, the set of input slots the outlives closure requires (both inclusions). The closure itself is validated against rustc on sampled signatures (one probe function per ordered lifetime pair). JS, Dart and Kotlin edge lists (per output lifetime) and nanobind keep_alive indices (per argument) must contain the expected inputs; for methods returning an opaque the generated JS is also executed under a stub wasm module and the private edge arrays of the returned object (read through the V8 inspector) must hold every required input object, including opaque fields of by-value struct parameters and of an optional nested struct field (present or absent). Exploration.",
    note="Trusted: rustc as the arbiter of outlives; the signature renderer; the JS/Dart/Kotlin/nanobind edge-list parsers; node's inspector for the executed-JS leg. 'static inputs are don't-care. The definition-site gap (known finding) is excluded by spelling all bounds and probed separately.",
    ref="DESIGN.md §2 C04")

CLAIMED["C01"] = dict(
    engine="P", technique="end-to-end differential property testing: generated bridge compiled by the real proc macro and called through the generated C headers with generated argument vectors (gcc, ASan+UBSan)",
    text="Generated programs over the documented type grammar with generated call vectors; Rust bodies log arguments bit-exactly and return drawn values, a generated C driver calls through the generated headers. Every call must reach Rust exactly once with the drawn arguments and return exactly the drawn value (incl. Option/Result arm and raw is_ok byte, write-out strings into Rust-owned and fixed caller buffers, &mut slice mutation); callback arguments (C function + heap data + destructor) must observe the values Rust passes, Rust must receive what they answer, and each destructor must run exactly once; a bridged trait (vtable of C function pointers over scalars, an enum, a by-value struct and Options) is implemented in C and called by Rust, every value in both directions checked against a model; a third of the programs carry abi_renames; struct/enum layouts and result sizes seen by C must equal those rustc gives the macro's output; primitive/pointer/view parameter types in prototypes must be the documented spellings. Exploration.",
    note="Trusted: gcc 12 / clang 14 (-O0 and -O2, chosen per program), rustc, the canonical value serialisers on the three sides (Python expectation, Rust logger, C printer). x86-64 SysV only.",
    ref="DESIGN.md §2 C01")
CLAIMED["C10"] = dict(
    engine="P", technique="metamorphic + end-to-end property testing of twin spellings (Option/DiplomatOption, Result/DiplomatResult, Self/named) through the generated C header (every third program also through the generated C++ API)",
    text="Generated twin methods that differ only in spelling receive identical generated call vectors: their C declarations must be token-identical and both must behave identically when executed (C always; C++ std::optional / std::nullopt / diplomat::result on every third program; optional strings and slices, Option<Self>, results next to a DiplomatWrite included); the wire encoding is observed from C (raw is_ok byte 0/1 after the payload union, sizeof equal to the macro's type, NULL iff None for optional pointers, unit arms without payload). Exploration.",
    note="Trusted: as C01. Both spellings are generated only for primitive, enum and struct payloads.",
    ref="DESIGN.md §2 C10")

CLAIMED["C02"] = dict(
    engine="P", technique="end-to-end differential property testing through the generated C++ class API (g++ -std=c++17 and -std=c++20, ASan+UBSan), with an almost-valid UTF-8 generator for the rejection clause",
    text="Generated programs and call vectors as in C01, driven through the C++ classes only (optional, string_view, span, struct/enum wrappers, references, unique_ptr, diplomat::result, std::string). Arguments must arrive unchanged, returns must come back with identical contents and arm, under both language standards, with g++ and clang++ at -O0/-O2; std::function callbacks (stateful lambdas, exactly-once destruction), owned slices, and in half of the programs namespaces, type/method renames and abi_renames are part of the drive; ill-formed UTF-8 in a direct &str parameter must yield Utf8Error and no Rust invocation. Exploration.",
    note="Trusted: g++ 12, the C++ driver generator's model of the class API (a wrong model fails to compile rather than pass). Operators and lists of strings (known finding, probed separately) are not driven from C++; callbacks use the shapes the C++ runtime converts.",
    ref="DESIGN.md §2 C02")

TODO_REASON = "check not built yet in this revision of /verif (planned, see DESIGN.md §2); not claimed until it is silent on the unchanged tree and kills its mutants"

ALL = ["C%02d" % i for i in range(1, 18)]


def main():
    checks = []
    for pid in ALL:
        if pid not in CLAIMED:
            continue
        c = CLAIMED[pid]
        checks.append({
            "property_id": pid,
            "quick_cmd": "./run %s --tier quick" % pid,
            "thorough_cmd": "./run %s --tier thorough" % pid,
            "evidence_file": "/verif/evidence/%s.json" % pid,
            "replay_cmd_template": "./run %s --replay {path}" % pid,
            "engine": c["engine"],
            "level_claimed": {"category": c.get("category", "exploration"), "text": c["text"], "design_ref": c["ref"]},
            "level_note": c["note"],
            "technique": c["technique"],
        })
    m = {
        "version": 1,
        "setup_cmd": "./setup.sh",
        "hooks": {
            "guard": "--cfg rust_diplomat_diplomat_verif",
            "enable": "RUSTFLAGS='--cfg rust_diplomat_diplomat_verif' when /verif builds the repository crates (dv/build.py); no source hook is currently needed, so the flag guards nothing",
            "baseline_off_cmd": "cd /repo && cargo test --workspace --no-fail-fast --offline",
            "source_commits": [],
            "add_only": True,
        },
        "engines": [
            {"name": "R", "path": "/verif/rs/rtcheck", "serves_properties": ["C03", "C12", "C16"],
             "kind_free_text": "Rust: proptest from a binary (fixed seeds, shrinking to replay JSON), linked against /repo/runtime; native and ASan builds"},
            {"name": "P", "path": "/verif/dv", "serves_properties": [p for p in CLAIMED if "P" in CLAIMED[p]["engine"]],
             "kind_free_text": "Python + Hypothesis: grammar-based generator of bridge programs; drives the diplomat-tool binary, rustc with the real proc macro, gcc/g++ (ASan/UBSan), node"},
        ],
        "checks": checks,
        "not_applicable": [{"property_id": p, "reason": TODO_REASON} for p in ALL if p not in CLAIMED],
        "notes": "Family: property-based testing and fuzzing. Every check is ./run <ID>; exit 0 held / 1 VIOLATION / 2 inconclusive. Fixed defects and known findings: known_findings.json.",
    }
    with open(os.path.join(VERIF, "MANIFEST.json"), "w") as f:
        json.dump(m, f, indent=1)
        f.write("\n")


main()
