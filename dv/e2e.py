"""End-to-end engine: a generated bridge is compiled with the real proc macro into a staticlib whose method bodies log every
argument bit-exactly and return drawn values; a generated C driver includes the *generated* headers, performs the calls with the
drawn arguments and prints what it got back. Used by C01, C10, C03 (layer E) and the C12 end-to-end leg."""
import json, os, re, struct as pystruct, subprocess
from hypothesis import strategies as st
from . import build, compilers, tool
from .gen import ir, strategies as S
from .models import naming

C_PRIM = {"i8": "int8_t", "u8": "uint8_t", "i16": "int16_t", "u16": "uint16_t", "i32": "int32_t", "u32": "uint32_t", "i64": "int64_t", "u64": "uint64_t",
          "isize": "intptr_t", "usize": "size_t", "f32": "float", "f64": "double", "bool": "bool", "DiplomatChar": "char32_t", "DiplomatByte": "uint8_t"}
RS_PRIM = {"DiplomatChar": "u32", "DiplomatByte": "u8"}
VIEW = {"i8": "I8", "u8": "U8", "i16": "I16", "u16": "U16", "i32": "I32", "u32": "U32", "i64": "I64", "u64": "U64", "isize": "Isize", "usize": "Usize",
        "f32": "F32", "f64": "F64", "bool": "Bool", "DiplomatChar": "Char", "DiplomatByte": "U8"}
INT_RANGE = {"i8": (-2 ** 7, 2 ** 7 - 1), "u8": (0, 2 ** 8 - 1), "i16": (-2 ** 15, 2 ** 15 - 1), "u16": (0, 2 ** 16 - 1), "i32": (-2 ** 31, 2 ** 31 - 1),
             "u32": (0, 2 ** 32 - 1), "i64": (-2 ** 63, 2 ** 63 - 1), "u64": (0, 2 ** 64 - 1), "isize": (-2 ** 63, 2 ** 63 - 1), "usize": (0, 2 ** 64 - 1),
             "DiplomatChar": (0, 2 ** 32 - 1), "DiplomatByte": (0, 255)}
F32_BITS = [0, 0x80000000, 0x3F800000, 0xBF800000, 0x7F800000, 0xFF800000, 0x7FC00000, 0x7FC00001, 0xFFC12345, 0x7FA00000, 0x00000001, 0x7F7FFFFF, 0x42F6E979]
F64_BITS = [0, 0x8000000000000000, 0x3FF0000000000000, 0x7FF0000000000000, 0xFFF0000000000000, 0x7FF8000000000000, 0x7FF8000000000001, 0xFFF4000000ABCDEF,
            0x0000000000000001, 0x7FEFFFFFFFFFFFFF, 0x400921FB54442D18]
CHARS = [0, 0x41, 0x7F, 0x80, 0xD7FF, 0xD800, 0xDFFF, 0xE000, 0xFFFF, 0x10000, 0x10FFFF, 0x110000, 0xFFFFFFFF]


# ---- values ------------------------------------------------------------------------------------------
def prim_value(p):
    if p == "bool":
        return st.booleans()
    if p == "f32":
        return st.one_of(st.sampled_from(F32_BITS), st.integers(0, 2 ** 32 - 1))
    if p == "f64":
        return st.one_of(st.sampled_from(F64_BITS), st.integers(0, 2 ** 64 - 1))
    if p == "DiplomatChar":
        return st.one_of(st.sampled_from(CHARS), st.integers(0, 0x10FFFF))
    lo, hi = INT_RANGE[p]
    return st.one_of(st.sampled_from([lo, hi, 0, 1 if hi >= 1 else 0, hi - 1, lo + 1 if lo < 0 else 0, -1 if lo < 0 else hi]), st.integers(lo, hi))


TEXT = st.text(alphabet="abcXYZ09 _-é€😀ß\u0000", min_size=0, max_size=7)


class ValueGen:
    """draws values for IR types; `fresh` hands out opaque object ids"""

    def __init__(self, draw, prog):
        self.draw, self.prog = draw, prog
        self.next_id = [1000]

    def fresh(self):
        self.next_id[0] += 1
        return self.next_id[0]

    def value(self, t, direction):
        d = self.draw
        k = t[0]
        if k == "prim":
            return d(prim_value(t[1]))
        if k == "enum":
            it = ir.find_item(self.prog, t[1])
            return d(st.sampled_from([v[0] for v in it["variants"]]))
        if k == "struct":
            it = ir.find_item(self.prog, t[1])
            return {f[0]: self.value(f[1], direction) for f in it["fields"]}
        if k in ("ref", "box"):
            return {"id": self.fresh()}
        if k == "opt":
            if d(st.integers(0, 2)) == 0:
                return None
            return {"some": self.value(t[1], direction)}
        if k == "slice":
            n = d(st.sampled_from([0, 0, 1, 2, 3, 5, 9, 33]))
            vals = [d(prim_value(t[3])) for _ in range(n)]
            return {"elems": vals, "null": n == 0 and d(st.booleans())}
        if k == "str":
            if t[2] == "str16":
                n = d(st.integers(0, 6))
                return {"units": [d(st.sampled_from([0x41, 0xE9, 0x20AC, 0xD83D, 0xDE00, 0xD800, 0xDFFF, 0, 0xFFFF])) for _ in range(n)], "null": n == 0 and d(st.booleans())}
            if t[2] == "utf8":
                s = d(TEXT)
                return {"bytes": list(s.encode("utf-8")), "null": len(s) == 0 and d(st.booleans())}
            n = d(st.integers(0, 7))
            b = d(st.one_of(TEXT.map(lambda s_: list(s_.encode("utf-8"))), st.lists(st.integers(0, 255), min_size=n, max_size=n)))
            return {"bytes": b, "null": len(b) == 0 and d(st.booleans())}
        if k == "strs":
            n = d(st.integers(0, 3))
            if t[1] == "str16":
                return {"items": [[d(st.sampled_from([0x41, 0xE9, 0x20AC, 0xD83D, 0])) for _ in range(d(st.integers(0, 4)))] for _ in range(n)]}
            return {"items": [list(d(TEXT).encode("utf-8")) for _ in range(n)]}
        if k == "result":
            ok = d(st.booleans())
            arm = t[1] if ok else t[2]
            return {"ok": ok, "v": None if arm[0] == "unit" else self.value(arm, direction)}
        if k == "unit":
            return None
        if k == "write":
            return {"chunks": [d(TEXT.filter(lambda s_: "\u0000" not in s_)) for _ in range(d(st.integers(0, 4)))], "cap": d(st.sampled_from([0, 1, 4, 64])),
                    "fixed": d(st.sampled_from([None, None, 1, 2, 5, 9, 17, 40]))}
        raise ValueError(t)


# ---- canonical serialisation (Python side = expectation) ------------------------------------------------
def enum_disc(prog, name, variant):
    return dict(S.enum_values(ir.find_item(prog, name)))[variant]


def ser(prog, t, v):
    k = t[0]
    if k == "prim":
        p = t[1]
        if p == "bool":
            return "true" if v else "false"
        if p == "f32":
            return "f32:0x%08x" % v
        if p == "f64":
            return "f64:0x%016x" % v
        if p == "DiplomatChar":
            return "c%d" % v
        return "%d" % v
    if k == "enum":
        return "E%d" % enum_disc(prog, t[1], v)
    if k == "struct":
        it = ir.find_item(prog, t[1])
        return "{" + ",".join("%s=%s" % (f[0], ser(prog, f[1], v[f[0]])) for f in it["fields"]) + "}"
    if k in ("ref", "box"):
        return "@%d" % v["id"]
    if k == "opt":
        if t[1][0] in ("ref", "box"):
            return "null" if v is None else "@%d" % v["some"]["id"]
        return "none" if v is None else "some(%s)" % ser(prog, t[1], v["some"])
    if k == "slice":
        return "[" + ",".join(ser(prog, ["prim", t[3]], x) for x in v["elems"]) + "]"
    if k == "str":
        if t[2] == "str16":
            return "w[" + ",".join("%04x" % u for u in v["units"]) + "]"
        return 's"' + bytes(v["bytes"]).hex() + '"'
    if k == "strs":
        if t[1] == "str16":
            return "[" + ";".join("w[" + ",".join("%04x" % u for u in it) + "]" for it in v["items"]) + "]"
        return "[" + ";".join('s"' + bytes(it).hex() + '"' for it in v["items"]) + "]"
    if k == "result":
        arm = t[1] if v["ok"] else t[2]
        inner = "()" if arm[0] == "unit" else ser(prog, arm, v["v"])
        return ("ok(" if v["ok"] else "err(") + inner + ")"
    if k == "unit":
        return "()"
    raise ValueError(t)


# ---- Rust side -------------------------------------------------------------------------------------------
def rs_prim_ty(p):
    return RS_PRIM.get(p, p)


def rs_ser(prog, t, e):
    """Rust expression (String) serialising expression `e` of type t (e is a place expression, borrowed as needed)"""
    k = t[0]
    if k == "prim":
        p = t[1]
        if p == "f32":
            return 'format!("f32:0x{:08x}", (%s).to_bits())' % e
        if p == "f64":
            return 'format!("f64:0x{:016x}", (%s).to_bits())' % e
        if p == "DiplomatChar":
            return 'format!("c{}", %s)' % e
        return 'format!("{}", %s)' % e
    if k == "enum":
        return 'format!("E{}", (%s) as isize)' % e
    if k == "struct":
        return "dv_ser_%s(&(%s))" % (t[1], e)
    if k in ("ref", "box"):
        return 'format!("@{}", (%s).0)' % e
    if k == "opt":
        if t[1][0] in ("ref", "box"):
            return 'match &(%s) { Some(x) => format!("@{}", x.0), None => "null".to_string() }' % e
        inner = rs_ser(prog, t[1], "*x")
        if t[2] == "std":
            return 'match &(%s) { Some(x) => format!("some({})", %s), None => "none".to_string() }' % (e, inner)
        return 'match (%s).as_ref().ok() { Some(x) => format!("some({})", %s), None => "none".to_string() }' % (e, inner)
    if k == "slice":
        inner = rs_ser(prog, ["prim", t[3]], "*x")
        return 'format!("[{}]", (%s).iter().map(|x| %s).collect::<Vec<_>>().join(","))' % (e, inner)
    if k == "str":
        if t[2] == "str16":
            return 'format!("w[{}]", (%s).iter().map(|u| format!("{:04x}", u)).collect::<Vec<_>>().join(","))' % e
        if t[2] == "utf8":
            return 'format!("s\\"{}\\"", dv_hex((%s).as_bytes()))' % e
        return 'format!("s\\"{}\\"", dv_hex(&(%s)[..]))' % e
    if k == "strs":
        if t[1] == "str16":
            return 'format!("[{}]", (%s).iter().map(|s| format!("w[{}]", s.iter().map(|u| format!("{:04x}", u)).collect::<Vec<_>>().join(","))).collect::<Vec<_>>().join(";"))' % e
        return 'format!("[{}]", (%s).iter().map(|s| format!("s\\"{}\\"", dv_hex(&s[..]))).collect::<Vec<_>>().join(";"))' % e
    raise ValueError(t)


def rs_lit(p, v):
    if p == "bool":
        return "true" if v else "false"
    if p == "f32":
        return "f32::from_bits(0x%08x)" % v
    if p == "f64":
        return "f64::from_bits(0x%016x)" % v
    return "(%d as %s)" % (v, rs_prim_ty(p)) if v >= 0 else "(%d%s)" % (v, rs_prim_ty(p))


def rs_str(s_):
    return '"' + s_.replace("\\", "\\\\").replace('"', '\\"') + '"'


def rs_opaque(prog, name, oid):
    it = ir.find_item(prog, name)
    if it.get("lifetimes"):
        return "%s(%d, %s)" % (name, oid, ", ".join("core::marker::PhantomData" for _ in it["lifetimes"]))
    return "%s(%d)" % (name, oid)


def rs_val(prog, t, v, leak=True):
    """Rust expression constructing value v of (return) type t; borrowed things are leaked, or (leak=False) temporaries that
    live to the end of the enclosing statement"""
    k = t[0]
    if k == "prim":
        return rs_lit(t[1], v)
    if k == "enum":
        return "%s::%s" % (t[1], v)
    if k == "struct":
        it = ir.find_item(prog, t[1])
        return "%s { %s }" % (t[1], ", ".join("%s: %s" % (f[0], rs_val(prog, f[1], v[f[0]], leak)) for f in it["fields"]))
    if k == "box":
        return "Box::new(%s)" % rs_opaque(prog, t[1], v["id"])
    if k == "ref":
        if t[2]:
            return "Box::leak(Box::new(%s))" % rs_opaque(prog, t[3], v["id"])      # &mut
        return "(&*Box::leak(Box::new(%s)))" % rs_opaque(prog, t[3], v["id"])
    if k == "opt":
        if v is None:
            return "None" if t[2] == "std" or t[1][0] in ("ref", "box") else "Option::None.into()"
        inner = rs_val(prog, t[1], v["some"], leak)
        return "Some(%s)" % inner if t[2] == "std" or t[1][0] in ("ref", "box") else "Some(%s).into()" % inner
    if k == "slice":
        elems = ", ".join(rs_lit(t[3], x) for x in v["elems"])
        e = "(&*Box::leak(vec![%s].into_boxed_slice()))" % elems if v["elems"] else "(&[] as &[%s])" % rs_prim_ty(t[3])
        if not leak and v["elems"]:
            e = "(&vec![%s][..])" % elems
        return e if t[4] == "std" else "(%s).into()" % e
    if k == "str":
        if t[2] == "str16":
            e = "(&*Box::leak(vec![%s].into_boxed_slice()) as &[u16])" % ", ".join("0x%xu16" % u for u in v["units"]) if v["units"] else "(&[] as &[u16])"
        elif t[2] == "utf8":
            e = "(&*Box::leak(String::from_utf8(vec![%s]).unwrap().into_boxed_str()) as &str)" % ", ".join("%du8" % b for b in v["bytes"])
        else:
            e = "(&*Box::leak(vec![%s].into_boxed_slice()) as &[u8])" % ", ".join("%du8" % b for b in v["bytes"]) if v["bytes"] else "(&[] as &[u8])"
        if not leak:
            if t[2] == "str16" and v["units"]:
                e = "(&vec![%s][..] as &[u16])" % ", ".join("0x%xu16" % u for u in v["units"])
            elif t[2] == "utf8":
                e = "(String::from_utf8(vec![%s]).unwrap().as_str())" % ", ".join("%du8" % b for b in v["bytes"])
            elif t[2] == "str8" and v["bytes"]:
                e = "(&vec![%s][..] as &[u8])" % ", ".join("%du8" % b for b in v["bytes"])
        return e if t[3] == "std" else "(%s).into()" % e
    if k == "result":
        arm = t[1] if v["ok"] else t[2]
        inner = "()" if arm[0] == "unit" else rs_val(prog, arm, v["v"], leak)
        e = ("Ok(%s)" if v["ok"] else "Err(%s)") % inner
        return e if t[3] == "std" else "Result::from(%s).into()" % e if False else (e if t[3] == "std" else "(%s).into()" % e)
    if k == "unit":
        return "()"
    raise ValueError(t)


PRELUDE = '''use std::sync::Mutex;
use std::sync::atomic::{AtomicUsize, Ordering};
static DV_LOG: Mutex<Vec<String>> = Mutex::new(Vec::new());
static DV_DROPS: Mutex<Vec<u32>> = Mutex::new(Vec::new());
const DV_N: usize = %d;
static DV_CALLS: [AtomicUsize; DV_N] = [const { AtomicUsize::new(0) }; DV_N];
fn dv_log(s: String) { DV_LOG.lock().unwrap().push(s); }
fn dv_next(m: usize) -> usize { DV_CALLS[m].fetch_add(1, Ordering::SeqCst) }
fn dv_hex(b: &[u8]) -> String { b.iter().map(|x| format!("{:02x}", x)).collect() }
#[no_mangle] pub extern "C" fn dv_log_dump() { for l in DV_LOG.lock().unwrap().drain(..) { println!("{}", l); } }
#[no_mangle] pub extern "C" fn dv_drops_dump() { let d = DV_DROPS.lock().unwrap(); println!("drops {}", d.iter().map(|x| x.to_string()).collect::<Vec<_>>().join(",")); }
'''


def opaque_body(it):
    lts = it.get("lifetimes", [])
    if lts:
        return "(pub u32, " + ", ".join("pub core::marker::PhantomData<&'%s ()>" % l[0] for l in lts) + ")"
    return "(pub u32)"


def extra_items(prog, want_layout=True):
    def f(mod):
        out = ""
        for it in mod["items"]:
            if it["kind"] == "opaque":
                lt = ir.lifetime_decl(it.get("lifetimes", []))
                use = ir.generics([l[0] for l in it.get("lifetimes", [])])
                out += "    impl%s Drop for %s%s { fn drop(&mut self) { super::DV_DROPS.lock().unwrap().push(self.0); } }\n" % (lt, it["name"], use)
            if it["kind"] == "struct" and it["fields"]:
                lt = ir.lifetime_decl(it.get("lifetimes", []))
                use = ir.generics([l[0] for l in it.get("lifetimes", [])])
                parts = ", ".join('format!("%s={}", %s)' % (fl[0], rs_ser(prog, fl[1], "v.%s" % fl[0])) for fl in it["fields"])
                out += "    pub(crate) fn dv_ser_%s%s(v: &%s%s) -> String { use super::dv_hex; let parts: Vec<String> = vec![%s]; format!(\"{{{}}}\", parts.join(\",\")) }\n" % (
                    it["name"], lt, it["name"], use, parts)
        return out
    return f


def ffi_ret_type(t):
    """Rust spelling of the FFI-level return type of a method returning t (what the extern fn actually returns)"""
    t = ir.unself(t)
    k = t[0]
    if k == "opt" and t[1][0] not in ("ref", "box"):
        return "diplomat_runtime::DiplomatOption<%s>" % ir.rs_type(t[1])
    if k == "result":
        return "diplomat_runtime::DiplomatResult<%s, %s>" % (ir.rs_type(t[1]), ir.rs_type(t[2]))
    return None


def layout_fn(prog, plan=None):
    s = "#[no_mangle] pub extern \"C\" fn dv_layout() {\n"
    if plan is not None:
        for p_, (mod, it, impl, m) in zip(plan, methods_in_order(prog)):
            ft = ffi_ret_type(m["ret"]) if m["ret"] is not None else None
            if ft and not ir.type_lifetimes(m["ret"]):
                s += '    { use diplomat_runtime::*; use %s::*; println!("rsize %d {}", core::mem::size_of::<%s>()); }\n' % (mod["name"], p_["mid"], ft)
    for mod in prog["modules"]:
        for it in mod["items"]:
            if it["kind"] == "struct" and it["fields"]:
                path = "%s::%s" % (mod["name"], it["name"])
                s += '    println!("layout %s size {} align {}", core::mem::size_of::<%s>(), core::mem::align_of::<%s>());\n' % (it["name"], path, path)
                for fl in it["fields"]:
                    s += '    println!("layout %s off %s {}", core::mem::offset_of!(%s, %s));\n' % (it["name"], fl[0], path, fl[0])
            if it["kind"] == "enum":
                path = "%s::%s" % (mod["name"], it["name"])
                s += '    println!("layout %s size {} align {}", core::mem::size_of::<%s>(), core::mem::align_of::<%s>());\n' % (it["name"], path, path)
    s += "}\n"
    return s


def method_body(prog, mid, it, m, calls, reject=None):
    """calls: list of {"args": {...}, "self": ..., "ret": ...}; calls for which reject(m, c) holds never reach Rust"""
    if reject is not None:
        calls = [c for c in calls if not reject(m, c)]
    lines = ["use super::{dv_log, dv_next, dv_hex};", "let __k = dv_next(%d);" % mid]
    parts = []
    if m["self"] is not None:
        if it["kind"] == "opaque":
            parts.append('format!("self=@{}", self.0)')
        elif it["kind"] == "enum":
            parts.append('format!("self=E{}", self as isize)')
        else:
            parts.append('format!("self={}", dv_ser_%s(&self))' % it["name"])
    post = []
    for q in m["params"]:
        name, t = q[0], q[1]
        if t[0] == "write":
            continue
        if t[0] == "cb":
            post.append("let mut %s = %s;" % (name, name))
            continue
        parts.append('format!("%s={}", %s)' % (name, rs_ser(prog, t, name)))
        if t[0] == "slice" and t[2]:
            p = t[3]
            post.append("let mut %s = %s;" % (name, name))
            if p in ("f32", "f64"):
                post.append("for x in %s.iter_mut() { *x = -*x; }" % name)
            elif p == "bool":
                post.append("for x in %s.iter_mut() { *x = !*x; }" % name)
            else:
                post.append("for x in %s.iter_mut() { *x = x.wrapping_add(1); }" % name)
    lines.append('dv_log(format!("call %d {} {}", __k, vec![%s].join(" ")));' % (mid, ", ".join(parts) if parts else "String::new()"))
    lines += post
    wparam = next((q[0] for q in m["params"] if q[1][0] == "write"), None)
    arms = []
    for k, c in enumerate(calls):
        stmts = ""
        for q in m["params"]:
            if q[1][0] != "cb":
                continue
            for j, inv in enumerate(c.get("cbs", {}).get(q[0], [])):
                call = "%s(%s)" % (q[0], ", ".join(rs_val(prog, a, v, leak=False) for a, v in zip(q[1][1], inv["args"])))
                if q[1][2][0] == "unit":
                    stmts += '{ %s; dv_log(format!("cbret %d {} %s %d ()", __k)); } ' % (call, mid, q[0], j)
                else:
                    stmts += '{ let __r = %s; dv_log(format!("cbret %d {} %s %d {}", __k, %s)); } ' % (call, mid, q[0], j, rs_ser(prog, q[1][2], "__r"))
        if wparam:
            # (a one-character chunk goes through write_char, what `write!(w, "{}", some_char)` and padding use)
            stmts += "".join(("core::fmt::Write::write_char(%s, '\\u{%x}').unwrap(); " % (wparam, ord(ch))) if len(ch) == 1 else
                             ("core::fmt::Write::write_str(%s, %s).unwrap(); " % (wparam, rs_str(ch))) for ch in c["write"]["chunks"])
        if m["ret"] is None:
            arms.append("%d => { %s }" % (k, stmts))
        else:
            arms.append("%d => { %s%s }" % (k, stmts, rs_val(prog, m["ret"], c["ret"])))
    arms.append('_ => panic!("unexpected call")')
    lines.append("match __k { %s }" % ", ".join(arms))
    return "\n".join(lines)


# ---- C side -----------------------------------------------------------------------------------------------
class CGen:
    def __init__(self, prog, protos, history=False):
        self.prog, self.protos, self.history = prog, protos, history
        self.pre = []       # statements before the call
        self.post = []      # statements after the call
        self.n = 0

    def tmp(self, base="t"):
        self.n += 1
        return "%s%d" % (base, self.n)

    def prim(self, p, v):
        if p == "bool":
            return "true" if v else "false"
        if p == "f32":
            return "dv_f32(0x%08xu)" % v
        if p == "f64":
            return "dv_f64(0x%016xull)" % v
        ct = C_PRIM[p]
        if p in ("i64", "isize") and v == -2 ** 63:
            return "((%s)(-9223372036854775807ll - 1))" % ct
        if v < 0:
            return "((%s)%dll)" % (ct, v)
        return "((%s)%dull)" % (ct, v)

    def arg(self, t, v, cty):
        """C expression for passing value v of type t whose declared C type is cty"""
        k = t[0]
        if k == "prim":
            return self.prim(t[1], v)
        if k == "enum":
            return "%s_%s" % (t[1], v)
        if k == "struct":
            it = ir.find_item(self.prog, t[1])
            return "(%s){ %s }" % (t[1], ", ".join(".%s = %s" % (f[0], self.arg(f[1], v[f[0]], None)) for f in it["fields"]))
        if k == "ref":
            name = t[3]
            if self.history:
                if not v.get("existing"):
                    self.pre.append("dv_pool[%d] = %s(%du);" % (v["id"] - 1000, self.ctor(name), v["id"]))
                return "((%s*)dv_pool[%d])" % (name, v["id"] - 1000)
            o = self.tmp("o")
            self.pre.append("%s* %s = %s(%du);" % (name, o, self.ctor(name), v["id"]))
            self.post.append("%s(%s);" % (self.dtor(name), o))
            return o
        if k == "opt":
            if t[1][0] == "ref":
                return "NULL" if v is None else self.arg(t[1], v["some"], None)
            oty = cty or self.opt_type(t[1])
            if v is None:
                return "(%s){ .is_ok = false }" % oty
            return "(%s){ .ok = %s, .is_ok = true }" % (oty, self.arg(t[1], v["some"], None))
        if k == "slice":
            p = t[3]
            vty = cty or ("Diplomat%sView%s" % (VIEW[p], "Mut" if (t[2] or t[1] == "owned") else ""))
            n = len(v["elems"])
            if t[1] == "owned":
                a = self.tmp("a")
                if n == 0:
                    return "(%s){ NULL, 0 }" % vty
                self.pre.append("%s* %s = (%s*)diplomat_alloc(%d * sizeof(%s), _Alignof(%s));" % (C_PRIM[p], a, C_PRIM[p], n, C_PRIM[p], C_PRIM[p]))
                for i, x in enumerate(v["elems"]):
                    self.pre.append("%s[%d] = %s;" % (a, i, self.prim(p, x)))
                return "(%s){ %s, %d }" % (vty, a, n)
            a = self.tmp("a")
            if n == 0:
                if v.get("null"):
                    return "(%s){ NULL, 0 }" % vty
                self.pre.append("%s %s[1] = { 0 };" % (C_PRIM[p], a))
                return "(%s){ %s, 0 }" % (vty, a)
            self.pre.append("%s %s[%d] = { %s };" % (C_PRIM[p], a, n, ", ".join(self.prim(p, x) for x in v["elems"])))
            if t[2]:
                self.mut_after = getattr(self, "mut_after", []) + [(a, n, p)]
            return "(%s){ %s, %d }" % (vty, a, n)
        if k == "str":
            enc = t[2]
            if enc == "str16":
                vty = cty or "DiplomatString16View"
                n = len(v["units"])
                ct, elems = "char16_t", ", ".join("0x%x" % u for u in v["units"])
            else:
                vty = cty or "DiplomatStringView"
                n = len(v["bytes"])
                ct, elems = "char", ", ".join("(char)0x%x" % b for b in v["bytes"])
            a = self.tmp("s")
            if t[1] == "owned":
                if n == 0:
                    return "(%s){ NULL, 0 }" % vty
                self.pre.append("%s* %s = (%s*)diplomat_alloc(%d * sizeof(%s), _Alignof(%s));" % (ct, a, ct, n, ct, ct))
                src = self.tmp("s")
                self.pre.append("%s %s[%d] = { %s };" % (ct, src, n, elems))
                self.pre.append("memcpy(%s, %s, sizeof(%s));" % (a, src, src))
                return "(%s){ %s, %d }" % (vty, a, n)
            if n == 0:
                if v.get("null"):
                    return "(%s){ NULL, 0 }" % vty
                self.pre.append("%s %s[1] = { 0 };" % (ct, a))
                return "(%s){ %s, 0 }" % (vty, a)
            self.pre.append("%s %s[%d] = { %s };" % (ct, a, n, elems))
            return "(%s){ %s, %d }" % (vty, a, n)
        if k == "strs":
            enc = t[1]
            inner_ty = "DiplomatString16View" if enc == "str16" else "DiplomatStringView"
            vty = cty or ("DiplomatStrings16View" if enc == "str16" else "DiplomatStringsView")
            items = []
            for item in v["items"]:
                if enc == "str16":
                    items.append(self.arg(["str", None, "str16", "std"], {"units": item, "null": False}, inner_ty))
                else:
                    items.append(self.arg(["str", None, "str8", "std"], {"bytes": item, "null": False}, inner_ty))
            a = self.tmp("v")
            if not items:
                self.pre.append("%s %s[1];" % (inner_ty, a))
                return "(%s){ %s, 0 }" % (vty, a)
            self.pre.append("%s %s[%d] = { %s };" % (inner_ty, a, len(items), ", ".join(items)))
            return "(%s){ %s, %d }" % (vty, a, len(items))
        raise ValueError(t)

    def ctor(self, name):
        return self.sym(name, "dvnew")

    def idfn(self, name):
        return self.sym(name, "dvid")

    def dtor(self, name):
        for mod, it in ir.all_items(self.prog):
            if it["name"] == name:
                return naming.dtor_symbol(mod, it)

    def sym(self, name, method):
        for mod, it, impl, m in ir.all_methods(self.prog):
            if it["name"] == name and m["name"] == method:
                return naming.method_symbol(mod, it, impl, m)
        raise KeyError((name, method))

    def opt_type(self, inner):
        if inner[0] == "prim":
            return "Option" + VIEW[inner[1]]
        if inner[0] in ("enum", "struct"):
            return inner[1] + "_option"
        if inner[0] == "slice":
            return "Option%sView%s" % (VIEW[inner[3]], "Mut" if inner[2] else "")
        if inner[0] == "str":
            return "OptionString16View" if inner[2] == "str16" else "OptionStringView"
        raise ValueError(inner)

    # printing -------------------------------------------------------------------------------------
    def show(self, t, e, owned=True):
        """C statements printing expression e of type t in canonical form (no newline)"""
        k = t[0]
        if k == "prim":
            p = t[1]
            if p == "bool":
                return 'printf("%%s", (%s) ? "true" : "false");' % e
            if p == "f32":
                return 'printf("f32:0x%%08x", dv_bits32(%s));' % e
            if p == "f64":
                return 'printf("f64:0x%%016llx", (unsigned long long)dv_bits64(%s));' % e
            if p == "DiplomatChar":
                return 'printf("c%%u", (unsigned)(%s));' % e
            if p in ("u64", "usize"):
                return 'printf("%%llu", (unsigned long long)(%s));' % e
            if p in ("u8", "u16", "u32", "DiplomatByte"):
                return 'printf("%%llu", (unsigned long long)(%s));' % e
            return 'printf("%%lld", (long long)(%s));' % e
        if k == "enum":
            return 'printf("E%%d", (int)(%s));' % e
        if k == "struct":
            it = ir.find_item(self.prog, t[1])
            out = 'printf("{");'
            for i, f in enumerate(it["fields"]):
                out += 'printf("%s%s=");' % ("," if i else "", f[0])
                out += self.show(f[1], "(%s).%s" % (e, f[0]), owned)
            return out + 'printf("}");'
        if k == "ref":
            return 'printf("@%%u", (unsigned)%s(%s));' % (self.idfn(t[3]), e)
        if k == "box":
            s_ = 'printf("@%%u", (unsigned)%s(%s));' % (self.idfn(t[1]), e)
            if owned and self.history:
                s_ += "dv_pool[%s(%s) - 1000] = %s;" % (self.idfn(t[1]), e, e)
            elif owned:
                s_ += "%s(%s);" % (self.dtor(t[1]), e)
            return s_
        if k == "opt":
            if t[1][0] in ("ref", "box"):
                return 'if ((%s) == NULL) { printf("null"); } else { %s }' % (e, self.show(t[1], e, owned))
            return 'if ((%s).is_ok) { printf("some("); %s printf(")"); } else { printf("none"); }' % (e, self.show(t[1], "(%s).ok" % e, owned))
        if k == "slice":
            i = self.tmp("i")
            return 'printf("["); for (size_t %s = 0; %s < (%s).len; %s++) { if (%s) printf(","); %s } printf("]");' % (
                i, i, e, i, i, self.show(["prim", t[3]], "(%s).data[%s]" % (e, i)))
        if k == "str":
            i = self.tmp("i")
            if t[2] == "str16":
                return 'printf("w["); for (size_t %s = 0; %s < (%s).len; %s++) { if (%s) printf(","); printf("%%04x", (unsigned)(%s).data[%s]); } printf("]");' % (i, i, e, i, i, e, i)
            return 'printf("s\\""); for (size_t %s = 0; %s < (%s).len; %s++) { printf("%%02x", (unsigned)(unsigned char)(%s).data[%s]); } printf("\\"");' % (i, i, e, i, e, i)
        if k == "result":
            ok = 'printf("ok("); %s printf(")");' % ('printf("()");' if t[1][0] == "unit" else self.show(t[1], "(%s).ok" % e, owned))
            err = 'printf("err("); %s printf(")");' % ('printf("()");' if t[2][0] == "unit" else self.show(t[2], "(%s).err" % e, owned))
            return "if ((%s).is_ok) { %s } else { %s }" % (e, ok, err)
        if k == "unit":
            return 'printf("()");'
        raise ValueError(t)


C_HELPERS = '''#include <stdio.h>
#include <stdlib.h>
#include <string.h>
#include <stdint.h>
#include <stddef.h>
static inline float dv_f32(uint32_t b) { float f; memcpy(&f, &b, 4); return f; }
static inline double dv_f64(uint64_t b) { double f; memcpy(&f, &b, 8); return f; }
static inline uint32_t dv_bits32(float f) { uint32_t b; memcpy(&b, &f, 4); return b; }
static inline uint64_t dv_bits64(double f) { uint64_t b; memcpy(&b, &f, 8); return b; }
void* diplomat_alloc(size_t size, size_t align);
void diplomat_free(void* p, size_t size, size_t align);
void dv_log_dump(void);
void dv_drops_dump(void);
void dv_layout(void);
'''


def parse_protos(cdir):
    """symbol -> (return type text, [(type text, name)]) from the generated C headers"""
    out = {}
    for fn in sorted(os.listdir(cdir)):
        if not fn.endswith(".h") or fn.endswith(".d.h") or fn == "diplomat_runtime.h":
            continue
        for line in open(os.path.join(cdir, fn)):
            m = re.match(r"^\s*(?!typedef\b)([A-Za-z_][\w \*]*?)\s*\**\s*\b([A-Za-z_]\w*)\((.*)\);\s*$", line)
            if not m or "(*" in line:
                continue
            full = line.strip()
            name = m.group(2)
            ret = full[:full.index(name + "(")].strip()
            params = []
            ptxt = m.group(3).strip()
            if ptxt and ptxt != "void":
                for p in ptxt.split(","):
                    p = p.strip()
                    mm = re.match(r"^(.*?)(\w+)$", p)
                    params.append((mm.group(1).strip(), mm.group(2)))
            out[name] = (ret, params)
    return out


def add_support_methods(prog):
    """each opaque gets Diplomat-exposed dvnew(id) -> Box<Self> and dvid(&self) -> u32 (simple shapes, themselves part of the bridge)"""
    for _, it in ir.all_items(prog):
        if it["kind"] == "opaque":
            lts = [l[0] for l in it.get("lifetimes", [])]
            ms = [{"name": "dvnew", "attrs": [], "lifetimes": [], "self": None, "params": [["id", ["prim", "u32"], []]], "ret": ["box", it["name"], lts],
                   "body": "Box::new(%s)" % ("%s(id%s)" % (it["name"], "".join(", core::marker::PhantomData" for _ in lts)))},
                  {"name": "dvid", "attrs": [], "lifetimes": [], "self": ["ref", None, False], "params": [], "ret": ["prim", "u32"], "body": "self.0"}]
            it["impls"].append({"attrs": [], "methods": ms, "support": True})
    for mod in prog["modules"]:
        ir.default_order(mod)


BAD_UTF8 = [[0xC0, 0x80], [0xC1, 0xBF], [0xE0, 0x80, 0x80], [0xED, 0xA0, 0x80], [0xED, 0xBF, 0xBF], [0xF0, 0x80, 0x80, 0x80], [0xF4, 0x90, 0x80, 0x80],
            [0xF5, 0x80, 0x80, 0x80], [0x80], [0xBF], [0xFF], [0xFE], [0xE2, 0x82], [0xF0, 0x9F, 0x98], [0xC3]]


def almost_valid_utf8(draw):
    base = list(draw(TEXT).encode("utf-8"))
    bad = draw(st.sampled_from(BAD_UTF8))
    pos = draw(st.integers(0, len(base)))
    # insert at a character boundary
    while pos > 0 and pos < len(base) and (base[pos] & 0xC0) == 0x80:
        pos -= 1
    return base[:pos] + bad + base[pos:]


def plan_callback(vg, draw, t):
    """invocations Rust makes of one callback argument: values Rust passes and the value the foreign function answers"""
    inv = []
    for _ in range(draw(st.sampled_from([0, 1, 1, 2, 3]))):
        inv.append({"args": [vg.value(a, "out") for a in t[1]], "ret": None if t[2][0] == "unit" else vg.value(t[2], "in")})
    return inv


def plan_calls(draw, prog, ncalls, bad_utf8=False):
    """draw call vectors for every (non-support) method. Returns list of (mid, mod, it, impl, m, [call])"""
    vg = ValueGen(draw, prog)
    plan = []
    mid = 0
    for mod, it, impl, m in ir.all_methods(prog):
        if impl.get("support"):
            continue
        calls = []
        for _ in range(ncalls):
            c = {"args": {}, "self": None, "ret": None, "write": None}
            if m["self"] is not None:
                if it["kind"] == "opaque":
                    c["self"] = {"id": vg.fresh()}
                elif it["kind"] == "enum":
                    c["self"] = draw(st.sampled_from([v[0] for v in it["variants"]]))
                else:
                    c["self"] = vg.value(["struct", it["name"], []], "in")
            for q in m["params"]:
                if q[1][0] == "write":
                    c["write"] = vg.value(["write"], "in")
                elif q[1][0] == "cb":
                    c.setdefault("cbs", {})[q[0]] = plan_callback(vg, draw, q[1])
                elif q[1][0] != "cb":
                    c["args"][q[0]] = vg.value(q[1], "in")
                    if bad_utf8 and q[1][0] == "str" and q[1][2] == "utf8" and draw(st.integers(0, 2)) == 0:
                        c["args"][q[0]] = {"bytes": almost_valid_utf8(draw), "null": False}
            if m["ret"] is not None:
                c["ret"] = vg.value(m["ret"], "out")
            calls.append(c)
        plan.append({"mid": mid, "type": it["name"], "method": m["name"], "calls": calls})
        mid += 1
    return plan


def methods_in_order(prog):
    out = []
    for mod, it, impl, m in ir.all_methods(prog):
        if impl.get("support"):
            continue
        out.append((mod, it, impl, m))
    return out


def render_rust(prog, plan, reject=None):
    ms = methods_in_order(prog)
    bodies = {}
    for p_, (mod, it, impl, m) in zip(plan, ms):
        bodies[id(m)] = method_body(prog, p_["mid"], it, m, p_["calls"], reject)

    def body_fn(m, it):
        return bodies.get(id(m))
    prelude = PRELUDE % max(1, len(plan))
    src = ir.render_program(prog, bodies=body_fn, opaque_body=opaque_body, extra_items=extra_items(prog), prelude=prelude)
    if prog.get("holder"):
        src += "\n" + holder_rust(prog["holder"])
    return src + "\n" + layout_fn(prog, plan)


def render_c(prog, plan, protos, header_names, history=None, fixed_writers=True):
    """history: None, or {"order": [(plan index, call index)], "destroy_after": {step: [(type, id)]}, "final": [(type, id)]}"""
    ms = methods_in_order(prog)
    head = C_HELPERS + "static void* dv_pool[4096];\n" + "".join('#include "%s"\n' % h for h in header_names)
    top = []        # file-scope callback functions
    src = "int main(void) {\n  setvbuf(stdout, NULL, _IONBF, 0);\n"
    # layouts as seen by C
    for mod in prog["modules"]:
        for it in mod["items"]:
            if it["kind"] == "struct" and it["fields"]:
                src += '  printf("clayout %s size %%zu align %%zu\\n", sizeof(%s), _Alignof(%s));\n' % (it["name"], it["name"], it["name"])
                for f in it["fields"]:
                    src += '  printf("clayout %s off %s %%zu\\n", offsetof(%s, %s));\n' % (it["name"], f[0], it["name"], f[0])
            if it["kind"] == "enum":
                src += '  printf("clayout %s size %%zu align %%zu\\n", sizeof(%s), _Alignof(%s));\n' % (it["name"], it["name"], it["name"])
    src += "  dv_layout();\n"
    if history is None:
        sequence = [(pi, k) for pi, p_ in enumerate(plan) for k in range(len(p_["calls"]))]
    else:
        sequence = [tuple(x) for x in history["order"]]
    dtor_of = {}
    for mod_, it_ in ir.all_items(prog):
        if it_["kind"] == "opaque":
            dtor_of[it_["name"]] = naming.dtor_symbol(mod_, it_)
    for step, (pi_, k) in enumerate(sequence):
        p_ = plan[pi_]
        mod, it, impl, m = ms[pi_]
        sym = naming.method_symbol(mod, it, impl, m)
        proto = protos.get(sym)
        if proto is None:
            src += '  printf("missing-prototype %s\\n");\n' % sym
            continue
        ret_ty, params = proto
        for c in [p_["calls"][k]]:
            g = CGen(prog, protos, history=history is not None)
            g.mut_after = []
            args = []
            pi = 0
            if m["self"] is not None:
                cty = params[pi][0]
                pi += 1
                if it["kind"] == "opaque" and history is not None:
                    args.append(g.arg(["ref", None, False, it["name"], []], c["self"], None))
                elif it["kind"] == "opaque":
                    o = g.tmp("self")
                    g.pre.append("%s* %s = %s(%du);" % (it["name"], o, g.ctor(it["name"]), c["self"]["id"]))
                    g.post.append("%s(%s);" % (g.dtor(it["name"]), o))
                    args.append(o)
                elif it["kind"] == "enum":
                    args.append("%s_%s" % (it["name"], c["self"]))
                else:
                    args.append(g.arg(["struct", it["name"], []], c["self"], cty))
            wvar = None
            wfixed = None
            for q in m["params"]:
                cty = params[pi][0] if pi < len(params) else None
                pi += 1
                if q[1][0] == "write":
                    wvar = g.tmp("w")
                    if c["write"].get("fixed") and fixed_writers:
                        # caller-owned fixed buffer: diplomat_simple_write keeps one byte for the NUL the macro's flush() writes
                        n_ = c["write"]["fixed"]
                        g.pre.append("char %s_buf[%d + 8]; memset(%s_buf, 0xEE, sizeof(%s_buf)); DiplomatWrite %s_obj = diplomat_simple_write(%s_buf, %d); DiplomatWrite* %s = &%s_obj;" % (
                            wvar, n_, wvar, wvar, wvar, wvar, n_, wvar, wvar))
                        wfixed = n_
                    else:
                        g.pre.append("DiplomatWrite* %s = diplomat_buffer_write_create(%d);" % (wvar, c["write"]["cap"]))
                    args.append(wvar)
                elif q[1][0] == "cb":
                    uid = "%d_%d_%s" % (p_["mid"], k, q[0])
                    top.append(c_callback(prog, protos, uid, q[1], c.get("cbs", {}).get(q[0], []), cty))
                    g.pre.append("int* dv_cbn_%s = (int*)malloc(sizeof(int)); *dv_cbn_%s = 0;" % (uid, uid))   # freed by the destructor: LSan/ASan see a missing or repeated call
                    args.append("(%s){ .data = dv_cbn_%s, .run_callback = dv_cb_%s, .destructor = dv_cbd_%s }" % (cty, uid, uid, uid))
                else:
                    args.append(g.arg(q[1], c["args"][q[0]], cty))
            src += "  {\n"
            for s_ in g.pre:
                src += "    " + s_ + "\n"
            call = "%s(%s)" % (sym, ", ".join(args))
            if m["ret"] is None:
                src += "    %s;\n    printf(\"ret %d %d ()\");\n" % (call, p_["mid"], k)
            else:
                src += "    %s r = %s;\n" % (ret_ty, call)
                if ffi_ret_type(m["ret"]) and not ir.type_lifetimes(m["ret"]):
                    src += '    unsigned dv_raw = ((unsigned char*)&r)[offsetof(%s, is_ok)]; size_t dv_sz = sizeof(r);\n' % ret_ty
                    src += "    printf(\"ret %d %d \");\n    %s\n" % (p_["mid"], k, g.show(m["ret"], "r"))
                    src += '    printf(" raw=%u", dv_raw);\n'
                    if k == 0:
                        g.post.append('printf("csize %d %%zu\\n", dv_sz);' % p_["mid"])
                else:
                    src += "    printf(\"ret %d %d \");\n    %s\n" % (p_["mid"], k, g.show(m["ret"], "r"))
            if wvar and wfixed:
                src += ('    printf(" write=s\\""); { size_t n = %s->len; for (size_t i = 0; i < n; i++) printf("%%02x", (unsigned)(unsigned char)%s_buf[i]); } '
                        'printf("\\" wfail=%%d nul=%%d guard=%%d", (int)%s->grow_failed, (int)(%s->len < %d && %s_buf[%s->len] == 0), (int)((unsigned char)%s_buf[%d] == 0xEE));\n') % (
                            wvar, wvar, wvar, wvar, wfixed, wvar, wvar, wvar, wfixed)
            elif wvar:
                src += '    printf(" write=s\\""); { char* b = diplomat_buffer_write_get_bytes(%s); size_t n = diplomat_buffer_write_len(%s); for (size_t i = 0; i < n; i++) printf("%%02x", (unsigned)(unsigned char)b[i]); } printf("\\"");\n    diplomat_buffer_write_destroy(%s);\n' % (wvar, wvar, wvar)
            for (a, n, p) in g.mut_after:
                src += '    printf(" mut=["); for (size_t i = 0; i < %d; i++) { if (i) printf(","); %s } printf("]");\n' % (n, g.show(["prim", p], "%s[i]" % a))
            src += '    printf("\\n");\n'
            for s_ in g.post:
                src += "    " + s_ + "\n"
            if history is not None:
                for ty, oid in history["destroy_after"].get(str(step), []):
                    src += "    %s((%s*)dv_pool[%d]);\n" % (dtor_of[ty], ty, oid - 1000)
            src += "  }\n"
    if history is not None:
        for ty, oid in history["final"]:
            src += "  %s((%s*)dv_pool[%d]);\n" % (dtor_of[ty], ty, oid - 1000)
    if prog.get("holder"):
        htop, hbody = holder_c(prog["holder"])
        top.append(htop)
        src += hbody
    src += "  dv_log_dump();\n  dv_drops_dump();\n  return 0;\n}\n"
    return head + "\n".join(top) + "\n" + src


def c_type(t, g=None):
    if t[0] == "prim":
        return C_PRIM[t[1]]
    if t[0] in ("enum", "struct"):
        return t[1]
    if t[0] == "unit":
        return "void"
    if t[0] == "opt":
        return g.opt_type(t[1])
    if t[0] == "slice":
        return "Diplomat%sView%s" % (VIEW[t[3]], "Mut" if t[2] else "")
    if t[0] == "str":
        return "DiplomatString16View" if t[2] == "str16" else "DiplomatStringView"
    if t[0] == "box":
        return t[1] + "*"
    raise ValueError(t)


def c_callback(prog, protos, uid, t, invocations, cty):
    """file-scope C functions for one callback argument: prints what it receives, answers the planned values"""
    g = CGen(prog, protos)
    ret = c_type(t[2], g)
    params = "".join(", %s a%d" % (c_type(a, g), i) for i, a in enumerate(t[1]))
    out = "static %s dv_cb_%s(const void* data%s) {\n  int j = (*(int*)data)++;\n  printf(\"cbin %s %%d\", j);\n" % (ret, uid, params, uid)
    for i, a in enumerate(t[1]):
        out += '  printf(" a%d="); %s\n' % (i, g.show(a, "a%d" % i))
    out += '  printf("\\n");\n'
    if t[2][0] != "unit":
        out += "  switch (j) {\n"
        for j, inv in enumerate(invocations):
            out += "    case %d: return %s;\n" % (j, g.arg(t[2], inv["ret"], None))
        out += "  }\n  %s dv_zero; memset(&dv_zero, 0, sizeof(dv_zero)); return dv_zero;\n" % ret
    out += "}\n"
    out += 'static void dv_cbd_%s(const void* data) { printf("cbdrop %s %%d\\n", *(const int*)data); free((void*)data); }\n' % (uid, uid)
    assert not g.pre and not g.post
    return out


def expected_callback_lines(prog, plan, history=None, reject=None):
    """(C-side lines `cbin`/`cbdrop` in order, Rust-side `cbret` log lines in order)"""
    ms = methods_in_order(prog)
    cside, rside = [], []
    if history is None:
        sequence = [(pi, k) for pi, p_ in enumerate(plan) for k in range(len(p_["calls"]))]
    else:
        sequence = [tuple(x) for x in history["order"]]
    accepted = {}
    for pi_, k in sequence:
        p_ = plan[pi_]
        mod, it, impl, m = ms[pi_]
        c = p_["calls"][k]
        if reject is not None and reject(m, c):
            # the call never reaches Rust: the foreign function object is destroyed unused
            drops = ["cbdrop %d_%d_%s 0" % (p_["mid"], k, q[0]) for q in m["params"] if q[1][0] == "cb"]
            if drops:
                cside.append(sorted(drops))
            continue
        kk = accepted.get(pi_, 0)
        accepted[pi_] = kk + 1
        drops = []
        for q in m["params"]:
            if q[1][0] != "cb":
                continue
            uid = "%d_%d_%s" % (p_["mid"], k, q[0])
            inv = c.get("cbs", {}).get(q[0], [])
            for j, x in enumerate(inv):
                cside.append(("cbin %s %d" % (uid, j)) + "".join(" a%d=%s" % (i, ser(prog, a, v)) for i, (a, v) in enumerate(zip(q[1][1], x["args"]))))
                rside.append("cbret %d %d %s %d %s" % (p_["mid"], kk, q[0], j, "()" if q[1][2][0] == "unit" else ser(prog, q[1][2], x["ret"])))
            drops.append("cbdrop %s %d" % (uid, len(inv)))
        cside.append(sorted(drops))     # destruction order among one call's callbacks is not specified
    return cside, rside


# ---- a callback that outlives the call that received it -----------------------------------------------------
HOLDER_RET = {"i32": ("i32", "int32_t"), "optstd": ("Option<i32>", "OptionI32"), "optdip": ("DiplomatOption<i32>", "OptionI32"), "unit": ("()", "void")}


def plan_holder(draw):
    """a bridged opaque that stores `impl Fn(i32) -> R + 'static`, is fired a few times and then destroyed"""
    kind = draw(st.sampled_from(["i32", "optstd", "optstd", "optdip", "unit"]))
    fires = []
    for _ in range(draw(st.integers(1, 4))):
        x = draw(st.integers(-2 ** 31, 2 ** 31 - 1))
        ans = None if kind == "unit" else draw(st.one_of(st.none(), st.integers(-2 ** 31 + 1, 2 ** 31 - 1))) if kind.startswith("opt") else draw(st.integers(-2 ** 31 + 1, 2 ** 31 - 1))
        fires.append({"x": x, "answer": ans})
    return {"ret": kind, "fires": fires}


def holder_rust(h):
    rty = HOLDER_RET[h["ret"]][0]
    conv = {"i32": "r", "optstd": "match r { Some(v) => v, None => i32::MIN }", "optdip": "match r.into_option() { Some(v) => v, None => i32::MIN }", "unit": "{ let _ = r; 0 }"}[h["ret"]]
    return """#[diplomat::bridge]
pub mod dvholdermod {
    #[diplomat::opaque]
    pub struct DvHolder(pub u32, pub Box<dyn Fn(i32) -> %s>);
    impl DvHolder {
        pub fn dv_hold(id: u32, f: impl Fn(i32) -> %s + 'static) -> Box<DvHolder> { Box::new(DvHolder(id, Box::new(f))) }
        pub fn dv_fire(&self, x: i32) -> i32 { let r = (self.1)(x); %s }
    }
}
""" % (rty, rty, conv)


def holder_c(h):
    """(file-scope functions, statements for main)"""
    cty = HOLDER_RET[h["ret"]][1]
    top = "static %s dv_hcb(const void* data, int32_t x) {\n  int j = (*(int*)data)++;\n  printf(\"hcbin %%d x=%%d\\n\", j, (int)x);\n" % cty
    if h["ret"] != "unit":
        top += "  switch (j) {\n"
        for j, f in enumerate(h["fires"]):
            if h["ret"] == "i32":
                top += "    case %d: return (int32_t)%dll;\n" % (j, f["answer"])
            elif f["answer"] is None:
                top += "    case %d: return (OptionI32){ .is_ok = false };\n" % j
            else:
                top += "    case %d: return (OptionI32){ .ok = (int32_t)%dll, .is_ok = true };\n" % (j, f["answer"])
        top += "  }\n  %s dv_z; memset(&dv_z, 0, sizeof(dv_z)); return dv_z;\n" % cty
    top += "}\nstatic void dv_hcbd(const void* data) { printf(\"hcbdrop %d\\n\", *(const int*)data); free((void*)data); }\n"
    body = "  {\n    int* dv_hd = (int*)malloc(sizeof(int)); *dv_hd = 0;\n"
    body += "    DvHolder* dv_h = DvHolder_dv_hold(4242u, (DiplomatCallback_DvHolder_dv_hold_f){ .data = dv_hd, .run_callback = dv_hcb, .destructor = dv_hcbd });\n"
    body += '    printf("hold-created\\n");\n'
    for f in h["fires"]:
        body += '    printf("hfire %%d\\n", (int)DvHolder_dv_fire(dv_h, (int32_t)%dll));\n' % f["x"]
    body += '    printf("hold-destroying\\n");\n    DvHolder_destroy(dv_h);\n    printf("hold-destroyed\\n");\n  }\n'
    return top, body


def holder_expected(h):
    out = ["hold-created"]
    for j, f in enumerate(h["fires"]):
        out.append("hcbin %d x=%d" % (j, f["x"]))
        r = 0 if h["ret"] == "unit" else (-2 ** 31 if f["answer"] is None else f["answer"])
        out.append("hfire %d" % r)
    out += ["hold-destroying", "hcbdrop %d" % len(h["fires"]), "hold-destroyed"]
    return out


def holder_fails(h, lines):
    got = [l for l in lines if l.startswith(("hold-", "hcbin ", "hfire ", "hcbdrop "))]
    want = holder_expected(h)
    if got != want:
        i = next((k for k, (a, b) in enumerate(zip(got + ["<end>"], want + ["<end>"])) if a != b), 0)
        return [("stored-callback", "a callback kept by an opaque beyond the call: observed `%s` where `%s` was expected (the callback's data must stay alive until the holder is destroyed, and be released exactly once then); full trace %s" % (
            (got + ["<end>"])[i], (want + ["<end>"])[i], got[:12]))]
    return []


def callback_fails(prog, plan, lines, **kw):
    """callbacks: what the foreign function received, what Rust got back, and one destructor call per callback argument"""
    exp_c, exp_r = expected_callback_lines(prog, plan, **kw)
    got_c = [l for l in lines if l.startswith("cbin ") or l.startswith("cbdrop ")]
    got_r = [l for l in lines if l.startswith("cbret ")]
    i = 0
    for w in exp_c:
        if isinstance(w, list):
            g = sorted(got_c[i:i + len(w)])
            i += len(w)
            if g != w:
                return [("callback-drop", "callback destructors after a call: observed %s, expected exactly %s" % (g, w))]
        else:
            g = got_c[i] if i < len(got_c) else "<nothing>"
            i += 1
            if g != w:
                return [("callback-arg", "the foreign callback observed `%s` but Rust passed `%s`" % (g, w))]
    if i != len(got_c):
        return [("callback-drop", "unexpected extra callback activity: %s" % got_c[i:i + 3])]
    for g, w in zip(got_r, exp_r):
        if g != w:
            return [("callback-ret", "Rust received `%s` from the callback but the foreign function returned `%s`" % (g, w))]
    if len(got_r) != len(exp_r):
        return [("callback-ret", "Rust logged %d callback returns, %d expected" % (len(got_r), len(exp_r)))]
    return []


def expected_lines(prog, plan, history=None, reject=None, fixed_writers=True):
    """(ret lines, call-log lines) expected on stdout"""
    ms = methods_in_order(prog)
    rets, logs = [], []
    if history is None:
        sequence = [(pi, k) for pi, p_ in enumerate(plan) for k in range(len(p_["calls"]))]
    else:
        sequence = [tuple(x) for x in history["order"]]
    accepted = {}
    for pi_, k in sequence:
        p_ = plan[pi_]
        mod, it, impl, m = ms[pi_]
        for c in [p_["calls"][k]]:
            if reject is not None and reject(m, c):
                rets.append("ret %d %d utf8err" % (p_["mid"], k))
                continue
            kk = accepted.get(pi_, 0)       # index Rust sees: rejected calls never reach it
            accepted[pi_] = kk + 1
            line = "ret %d %d %s" % (p_["mid"], k, "()" if m["ret"] is None else ser(prog, m["ret"], c["ret"]))
            if m["ret"] is not None and ffi_ret_type(m["ret"]) and not ir.type_lifetimes(m["ret"]):
                flag = (c["ret"] is not None) if m["ret"][0] == "opt" else c["ret"]["ok"]
                line += " raw=%d" % (1 if flag else 0)
            if c["write"] is not None and c["write"].get("fixed") and fixed_writers:
                usable, content, failed = c["write"]["fixed"] - 1, b"", False
                for ch in c["write"]["chunks"]:
                    bch = ch.encode("utf-8")
                    if failed:
                        continue
                    if len(content) + len(bch) > usable:
                        failed = True       # all-or-nothing per chunk, sticky afterwards
                        continue
                    content += bch
                line += ' write=s"%s" wfail=%d nul=1 guard=1' % (content.hex(), 1 if failed else 0)
            elif c["write"] is not None:
                line += ' write=s"%s"' % "".join(c["write"]["chunks"]).encode("utf-8").hex()
            for q in m["params"]:
                t = q[1]
                if t[0] == "slice" and t[2] and t[1] != "owned" and len(c["args"][q[0]]["elems"]) > 0:
                    vals = []
                    for x in c["args"][q[0]]["elems"]:
                        vals.append(mutated(t[3], x))
                    line += " mut=[" + ",".join(ser(prog, ["prim", t[3]], x) for x in vals) + "]"
            rets.append(line)
            parts = []
            if m["self"] is not None:
                if it["kind"] == "opaque":
                    parts.append("self=@%d" % c["self"]["id"])
                elif it["kind"] == "enum":
                    parts.append("self=E%d" % enum_disc(prog, it["name"], c["self"]))
                else:
                    parts.append("self=" + ser(prog, ["struct", it["name"], []], c["self"]))
            for q in m["params"]:
                if q[1][0] in ("write", "cb"):
                    continue
                parts.append("%s=%s" % (q[0], ser(prog, q[1], c["args"][q[0]])))
            logs.append(("call %d %d %s" % (p_["mid"], kk, " ".join(parts))).rstrip() if parts else "call %d %d " % (p_["mid"], kk))
    return rets, logs


def mutated(p, x):
    if p == "f32":
        return x ^ 0x80000000
    if p == "f64":
        return x ^ 0x8000000000000000
    if p == "bool":
        return not x
    lo, hi = INT_RANGE[p]
    return lo if x == hi else x + 1


def build_and_run(art, work, prog, plan, sanitize=True, cc="gcc", opt="-O0", history=None, leaks=False):
    """returns dict(status, stdout, stderr, rust_src, c_src, headers_dir)"""
    rust_src = render_rust(prog, plan)
    entry = os.path.join(work, "lib.rs")
    open(entry, "w").write(rust_src)
    lib = os.path.join(work, "libdvbridge.a")
    ok, err = compilers.rustc(art, entry, lib, crate_type="staticlib", emit=None, extra=["-C", "panic=abort"] if False else [])
    if not ok:
        return {"status": "rustc-failed", "stderr": err, "rust_src": rust_src}
    r = tool.run_backend(art, "c", entry, os.path.join(work, "c"))
    if not r.ok:
        return {"status": "tool-" + r.classify(), "stderr": r.stderr, "rust_src": rust_src}
    protos = parse_protos(r.outdir)
    headers = sorted(h for h in os.listdir(r.outdir) if h.endswith(".h") and not h.endswith(".d.h") and h != "diplomat_runtime.h")
    c_src = render_c(prog, plan, protos, ["diplomat_runtime.h"] + headers, history=history)
    cfile = os.path.join(work, "driver.c")
    open(cfile, "w").write(c_src)
    exe = os.path.join(work, "driver")
    flags = ["-std=c11", opt, "-Werror=incompatible-pointer-types", "-Werror=int-conversion", "-Werror=implicit-function-declaration", "-Werror=implicit-int", "-I", r.outdir]
    if sanitize:
        flags += ["-fsanitize=address,undefined", "-fno-sanitize-recover=undefined", "-g"]
    p = subprocess.run([cc] + flags + [cfile, lib, "-lpthread", "-ldl", "-lm", "-o", exe], stdout=subprocess.PIPE, stderr=subprocess.PIPE, text=True)
    if p.returncode != 0:
        return {"status": "cc-failed", "stderr": p.stderr[-3000:], "rust_src": rust_src, "c_src": c_src}
    env = dict(os.environ)
    env["ASAN_OPTIONS"] = "detect_leaks=%d:abort_on_error=0" % (1 if leaks else 0)
    env["UBSAN_OPTIONS"] = "print_stacktrace=0"
    try:
        q = subprocess.run([exe], stdout=subprocess.PIPE, stderr=subprocess.PIPE, text=True, timeout=120, env=env, errors="replace")
    except subprocess.TimeoutExpired:
        raise build.Inconclusive("e2e driver timed out")
    return {"status": "ran", "rc": q.returncode, "stdout": q.stdout, "stderr": q.stderr, "rust_src": rust_src, "c_src": c_src, "protos": protos}


# ---- histories (C03 layer E) -----------------------------------------------------------------------------
def boxes_in(prog, t, v, out):
    """(type, id) of every owned opaque inside a returned value"""
    k = t[0]
    if v is None:
        return
    if k == "box":
        out.append((t[1], v["id"]))
    elif k == "opt":
        if v is not None:
            boxes_in(prog, t[1], v["some"], out)
    elif k == "struct":
        it = ir.find_item(prog, t[1])
        for f in it["fields"]:
            boxes_in(prog, f[1], v[f[0]], out)
    elif k == "result":
        arm = t[1] if v["ok"] else t[2]
        if arm[0] != "unit":
            boxes_in(prog, arm, v["v"], out)


def opaques_in(prog, t, v, out):
    """ids of every opaque object (borrowed or owned) inside a value"""
    k = t[0]
    if v is None:
        return
    if k in ("ref", "box"):
        out.append(v["id"])
    elif k == "opt":
        opaques_in(prog, t[1], v["some"], out)
    elif k == "struct":
        it = ir.find_item(prog, t[1])
        for f in it["fields"]:
            opaques_in(prog, f[1], v[f[0]], out)
    elif k == "result":
        arm = t[1] if v["ok"] else t[2]
        if arm[0] != "unit":
            opaques_in(prog, arm, v["v"], out)


def expected_drops(prog, plan, reject=None):
    """ids of the opaque objects the (non-history) drivers create or receive and destroy: each must be dropped exactly once.
    Borrowed returns are leaked on purpose by the Rust bodies and never dropped."""
    ms = methods_in_order(prog)
    out = []
    for p_, (mod, it, impl, m) in zip(plan, ms):
        for c in p_["calls"]:
            if m["self"] is not None and it["kind"] == "opaque":
                out.append(c["self"]["id"])
            elif m["self"] is not None and it["kind"] == "struct":
                opaques_in(prog, ["struct", it["name"], []], c["self"], out)
            for q in m["params"]:
                if q[1][0] not in ("write", "cb"):
                    opaques_in(prog, q[1], c["args"][q[0]], out)
            if reject is not None and reject(m, c):
                continue
            if m["ret"] is not None:
                got = []
                boxes_in(prog, m["ret"], c["ret"], got)
                out += [oid for _, oid in got]
            for q in m["params"]:
                if q[1][0] == "cb":
                    for inv in c.get("cbs", {}).get(q[0], []):
                        for a, v in zip(q[1][1], inv["args"]):
                            got = []
                            boxes_in(prog, a, v, got)
                            out += [oid for _, oid in got]
    return sorted(out)


def drop_fails(prog, plan, lines, reject=None):
    want = expected_drops(prog, plan, reject)
    d = [l for l in lines if l.startswith("drops ")]
    if not d:
        return [("drops", "the driver did not reach the drop-ledger dump")]
    got = sorted(int(x) for x in d[0][len("drops "):].split(",") if x)
    if got != want:
        twice = sorted({x for x in got if got.count(x) > 1})
        never = [x for x in want if x not in got]
        extra = [x for x in got if x not in want]
        return [("drops", "opaque objects: dropped twice %s, never dropped although destroyed/owned by the foreign side %s, dropped without an owner %s" % (twice, never, extra))]
    return []


class HistoryGen(ValueGen):
    def __init__(self, draw, prog):
        super().__init__(draw, prog)
        self.live = {}          # type -> [ids]
        self.used = set()       # ids already borrowed in the call being planned
        self.created = []       # (type, id) in creation order
        self.borrowed_live = 0

    def pick(self, name):
        cand = [i for i in self.live.get(name, []) if i not in self.used]
        if cand and self.draw(st.integers(0, 3)) != 0:
            oid = self.draw(st.sampled_from(cand))
            self.used.add(oid)
            self.borrowed_live += 1
            return {"id": oid, "existing": True}
        oid = self.fresh()
        self.live.setdefault(name, []).append(oid)
        self.created.append((name, oid))
        self.used.add(oid)
        return {"id": oid, "existing": False}

    def value(self, t, direction):
        if t[0] == "ref" and direction == "in":
            return self.pick(t[3])
        return super().value(t, direction)


def plan_history(draw, prog, nsteps):
    ms = methods_in_order(prog)
    hg = HistoryGen(draw, prog)
    plan = [{"mid": i, "type": it["name"], "method": m["name"], "calls": []} for i, (mod, it, impl, m) in enumerate(ms)]
    order, destroy_after, destroyed = [], {}, []
    stats = {"destroy_after_borrow": 0, "borrow_of_live": 0, "owned_returned": 0}
    borrowed_ever = set()
    for step in range(nsteps):
        pi = draw(st.integers(0, len(ms) - 1))
        mod, it, impl, m = ms[pi]
        hg.used = set()
        c = {"args": {}, "self": None, "ret": None, "write": None}
        if m["self"] is not None:
            if it["kind"] == "opaque":
                c["self"] = hg.pick(it["name"])
            elif it["kind"] == "enum":
                c["self"] = draw(st.sampled_from([v[0] for v in it["variants"]]))
            else:
                c["self"] = hg.value(["struct", it["name"], []], "in")
        for q in m["params"]:
            if q[1][0] == "write":
                c["write"] = hg.value(["write"], "in")
            elif q[1][0] == "cb":
                c.setdefault("cbs", {})[q[0]] = plan_callback(hg, draw, q[1])
                stats["callbacks"] = stats.get("callbacks", 0) + 1
                for inv in c["cbs"][q[0]]:
                    for a, v in zip(q[1][1], inv["args"]):
                        got = []
                        boxes_in(prog, a, v, got)
                        for ty, oid in got:     # the foreign callback owns these and destroys them on the spot
                            destroyed.append(oid)
                            stats["owned_to_callback"] = stats.get("owned_to_callback", 0) + 1
            else:
                c["args"][q[0]] = hg.value(q[1], "in")
        borrowed_ever |= hg.used
        if m["ret"] is not None:
            c["ret"] = hg.value(m["ret"], "out")
            got = []
            boxes_in(prog, m["ret"], c["ret"], got)
            for ty, oid in got:
                hg.live.setdefault(ty, []).append(oid)
                hg.created.append((ty, oid))
                stats["owned_returned"] += 1
        plan[pi]["calls"].append(c)
        order.append([pi, len(plan[pi]["calls"]) - 1])
        if draw(st.integers(0, 2)) == 0:
            alive = [(ty, oid) for ty, ids in hg.live.items() for oid in ids]
            if alive:
                ty, oid = draw(st.sampled_from(alive))
                hg.live[ty].remove(oid)
                destroy_after.setdefault(str(step), []).append([ty, oid])
                destroyed.append(oid)
                if oid in borrowed_ever:
                    stats["destroy_after_borrow"] += 1
    rest = [(ty, oid) for ty, ids in hg.live.items() for oid in ids]
    rest = draw(st.permutations(rest)) if rest else []
    for ty, oid in rest:
        destroyed.append(oid)
        if oid in borrowed_ever:
            stats["destroy_after_borrow"] += 1
    stats["borrow_of_live"] = hg.borrowed_live
    history = {"order": order, "destroy_after": destroy_after, "final": [list(x) for x in rest], "drop_order": destroyed}
    return plan, history, stats
