"""Worker pool + Hypothesis driver shared by the program-level checks (Engine P)."""
import collections, hashlib, json, os, subprocess, sys, time, traceback
from . import build

VERIF = build.VERIF


class Acc:
    """per-worker accumulator"""

    def __init__(self, pid, max_violations=6):
        self.pid = pid
        self.evaluations = 0
        self.nontrivial_keys = set()
        self.labels = collections.Counter()
        self.samples = []
        self.violations = []
        self.max_violations = max_violations
        self.extra = collections.Counter()

    def case(self, key_obj, nontrivial, labels=(), sample=None):
        self.evaluations += 1
        for l in labels:
            self.labels[l] += 1
        if nontrivial:
            k = hashlib.sha1(json.dumps(key_obj, sort_keys=True, default=str).encode()).hexdigest()[:16]
            if k not in self.nontrivial_keys:
                self.nontrivial_keys.add(k)
                if len(self.samples) < 3 and sample is not None:
                    self.samples.append(sample)

    def violation(self, message, replay_obj, signature=""):
        """store a replay file; returns True if more violations may still be recorded"""
        sigs = [v["signature"] for v in self.violations]
        if signature and signature in sigs:
            self.extra["duplicate-violations"] += 1
            return True
        d = os.path.join(VERIF, "replays", self.pid)
        os.makedirs(d, exist_ok=True)
        text = json.dumps({"property": self.pid, "message": message, "signature": signature, "case": replay_obj}, indent=1, sort_keys=True, default=str)
        p = os.path.join(d, hashlib.sha1(text.encode()).hexdigest()[:16] + ".json")
        open(p, "w").write(text)
        self.violations.append({"message": message, "replay": p, "signature": signature})
        return len(self.violations) < self.max_violations

    def full(self):
        return len(self.violations) >= self.max_violations

    def result(self):
        return {"evaluations": self.evaluations, "nontrivial": sorted(self.nontrivial_keys), "labels": dict(self.labels),
                "samples": self.samples, "violations": self.violations, "extra": dict(self.extra)}


def explore(strategy, body, n, seed):
    """Run `body(value)` on n generated values; all randomness comes from Hypothesis with a fixed seed."""
    from hypothesis import given, settings, seed as hseed, HealthCheck, Phase

    @settings(max_examples=n, database=None, deadline=None, derandomize=False, phases=[Phase.generate],
              suppress_health_check=list(HealthCheck))
    @hseed(seed)
    @given(strategy)
    def t(x):
        body(x)

    t()


def run_workers(module, func, nworkers, seed, params, timeout=None):
    """spawn `nworkers` processes running dv.<module>.<func>(widx, seed, params) and merge their Acc results"""
    if timeout is None:
        # a watchdog, not an oracle: a stuck worker makes the run inconclusive (exit 2), never a violation
        timeout = 1500 if os.environ.get("VERIF_TIER", "quick") != "thorough" and not os.environ.get("DV_LONG") else 6 * 3600
    work = build.workdir("pool-" + module.replace(".", "-"))
    procs = []
    for w in range(nworkers):
        out = os.path.join(work, "w%d.json" % w)
        wseed = (seed * 7919 + w * 104729 + 13) % (2 ** 62)
        cmd = [sys.executable, "-B", "-m", "dv.worker", module, func, str(w), str(wseed), json.dumps(params), out]
        procs.append((w, out, subprocess.Popen(cmd, cwd=VERIF, stdout=subprocess.PIPE, stderr=subprocess.STDOUT, text=True)))
    merged = {"evaluations": 0, "nontrivial": set(), "labels": collections.Counter(), "samples": [], "violations": [], "extra": collections.Counter()}
    failed = None
    for w, out, p in procs:
        try:
            so, _ = p.communicate(timeout=timeout)
        except subprocess.TimeoutExpired:
            p.kill()
            failed = "worker %d timed out" % w
            continue
        if p.returncode != 0 or not os.path.exists(out):
            sys.stderr.write(so[-4000:])
            failed = "worker %d failed (exit %s)" % (w, p.returncode)
            continue
        r = json.load(open(out))
        merged["evaluations"] += r["evaluations"]
        merged["nontrivial"].update(r["nontrivial"])
        merged["labels"].update(r["labels"])
        merged["extra"].update(r.get("extra", {}))
        if len(merged["samples"]) < 4:
            merged["samples"].extend(r["samples"][:1])
        merged["violations"].extend(r["violations"])
    build.rm_workdir(work)
    if failed and not merged["violations"]:
        raise build.Inconclusive(failed)
    if failed:
        # a violation found by one worker stands even if another worker could not finish (a hang is never reported as a
        # violation itself, but it does not hide one either)
        merged["extra"]["inconclusive-workers: " + failed] += 1
        sys.stderr.write("note: %s; reporting the violations the other workers found\n" % failed)
    # de-duplicate violations by signature across workers
    seen, uniq = set(), []
    for v in merged["violations"]:
        k = v.get("signature") or v["replay"]
        if k in seen:
            continue
        seen.add(k)
        uniq.append(v)
    merged["violations"] = uniq
    merged["distinct_nontrivial"] = len(merged["nontrivial"])
    merged["labels"] = dict(merged["labels"])
    merged["extra"] = dict(merged["extra"])
    del merged["nontrivial"]
    return merged
