import importlib, json, sys, traceback
from . import build


def main():
    module, func, widx, seed, params, out = sys.argv[1:7]
    try:
        mod = importlib.import_module("dv." + module)
        res = getattr(mod, func)(int(widx), int(seed), json.loads(params))
    except build.Inconclusive as e:
        print("INCONCLUSIVE:", e)
        sys.exit(2)
    except Exception:
        traceback.print_exc()
        sys.exit(3)
    with open(out, "w") as f:
        json.dump(res, f, default=str)


main()
