import argparse, importlib, os, sys, time, traceback
from . import build, evidence, findings

IDS = ["C%02d" % i for i in range(1, 18)]


class Ctx:
    def __init__(self, pid, tier, seed, replay):
        self.pid, self.tier, self.seed, self.replay = pid, tier, seed, replay
        self.quick = tier == "quick"


def main():
    ap = argparse.ArgumentParser()
    ap.add_argument("pid")
    ap.add_argument("--tier", default=os.environ.get("VERIF_TIER") or "quick")
    ap.add_argument("--replay")
    ap.add_argument("--seed", type=int)
    a = ap.parse_args()
    pid = a.pid.upper()
    if pid not in IDS:
        print("unknown property", pid)
        sys.exit(2)
    tier = a.tier if a.tier in ("quick", "thorough") else "quick"
    seed = a.seed if a.seed is not None else int(os.environ.get("VERIF_SEED") or 0)
    os.environ["VERIF_TIER"] = tier
    ctx = Ctx(pid, tier, seed, a.replay)
    t0 = time.time()
    try:
        mod = importlib.import_module("dv.checks." + pid.lower())
        if a.replay:
            res = mod.replay(ctx)
        else:
            res = mod.run(ctx)
    except build.Inconclusive as e:
        print("INCONCLUSIVE property=%s: %s" % (pid, e))
        sys.exit(2)
    except KeyboardInterrupt:
        sys.exit(2)
    except Exception:
        traceback.print_exc()
        print("INCONCLUSIVE property=%s: harness error" % pid)
        sys.exit(2)
    wall = time.time() - t0
    viols = res.get("violations", [])
    real = []
    for v in viols:
        k = findings.match(pid, v.get("signature", "")) if v.get("signature") else None
        if k:
            print("KNOWN-FINDING: property=%s %s" % (pid, k["what"]))
        else:
            real.append(v)
    for k in res.get("known_seen", []):
        print("KNOWN-FINDING: property=%s %s" % (pid, k))
    if not a.replay:
        cov = res["coverage"]
        evidence.write(pid, tier, seed, cov, res.get("assumptions", []), wall, len(real), level=res.get("level", "exploration"))
        if res.get("health_failure"):
            print("INCONCLUSIVE property=%s: %s" % (pid, res["health_failure"]))
            if not real:
                sys.exit(2)
    for v in real:
        print("VIOLATION property=%s replay=%s" % (pid, v["replay"]))
        if v.get("message"):
            print("  " + v["message"][:2000])
    if not a.replay:
        cov = res["coverage"]
        print("%s %s seed=%d: %d evaluations, %d distinct non-trivial, %d violation(s), %.1fs" % (
            pid, tier, seed, cov.get("evaluations", 0), cov.get("distinct_nontrivial", 0), len(real), wall))
    sys.exit(1 if real else 0)


if __name__ == "__main__":
    main()
