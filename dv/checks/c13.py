"""C13 — backend-conditional attributes apply exactly where their condition holds."""
import copy, json, os, re, zlib
from hypothesis import strategies as st
from .. import build, pbt, tool, findings, probe as probe_mod
from ..gen import ir, strategies as S
from ..models import cfg as cfgm, naming
from ..parsers import symbols as sym
from .c15 import STEER, CONFIGS, kotlin_error_attrs
from .c06 import add_demo_constructors, nm_symbols

RULE = ("Hypothesis-generated programs valid for all seven backends, decorated with 2-6 attributes #[diplomat::attr(<formula>, disable | rename = ..)] whose formulas "
        "are random trees (depth <= 3) over *, the seven backend names, unknown names, supports=<flag> for all 24 flags, not/any/all (incl. empty and singleton "
        "lists), placed on bridge modules, unreferenced types, impl blocks and methods. Oracle per backend b: an independent evaluator decides each formula "
        "(supports= atoms calibrated per run by canary methods); the output of b on the program must be byte-identical to its output on the program where every "
        "formula is replaced by `*` (if true for b) or the attribute is removed (if false); a rename whose condition holds (a type's or method's own, or an impl block's `prefix_{0}` pattern applied to the methods without an own one) must be visible in the C++/JS/Dart/Python output; the symbols b refers to must equal the model's enabled set with "
        "module->type/method, impl->method and type->method inheritance; nm of the compiled crate still shows every function. A case = one (program, backend). "
        "Non-trivial: the program has a formula that is not a bare atom and whose truth differs across backends, or an inherited (module/impl) placement. "
        "Distinct = distinct (program, backend).")
ASSUME = [
    "truth of supports=<flag> per backend is calibrated at run time from canary methods (`#[diplomat::attr(supports = F, disable)]`), so the check tests boolean structure, placement and inheritance rather than a copied table",
    "the `*` formula is the base case of the metamorphic relation; it is validated separately by the symbol extractor (a `*`-disabled method must be absent)",
    "two true disables on one inheritance chain are a documented error ('Duplicate `disable`') and are not generated",
    "type-level disables are only placed on types nothing else references",
]

FLAGS = probe_mod.ALL_FLAGS
UNKNOWN_NAMES = ["swift", "python", "java", "demo", "py"]


def formulas(max_depth=3):
    atoms = st.one_of(
        st.just(("star",)),
        st.sampled_from(cfgm.BACKEND_NAMES).map(lambda n: ("name", n)),
        st.sampled_from(cfgm.BACKEND_NAMES).map(lambda n: ("name", n)),
        st.sampled_from(UNKNOWN_NAMES).map(lambda n: ("name", n)),
        st.sampled_from(FLAGS).map(lambda f: ("nv", "supports", f)),
    )

    def extend(children):
        return st.one_of(
            children.map(lambda c: ("not", c)),
            st.lists(children, min_size=0, max_size=3).map(lambda cs: ("any", cs)),
            st.lists(children, min_size=0, max_size=3).map(lambda cs: ("all", cs)),
        )
    return st.recursive(atoms, extend, max_leaves=8).filter(lambda e: cfgm.depth(e) <= max_depth)


def camel(s_):
    parts = s_.split("_")
    return parts[0] + "".join(x[:1].upper() + x[1:] for x in parts[1:])


def canary_program(demo=False):
    ms = []
    for f in FLAGS:
        if demo:
            # demo_gen only renders methods that produce a string
            ms.append({"name": "canary_" + f, "attrs": ["#[diplomat::attr(supports = %s, disable)]" % f], "lifetimes": [], "self": ["ref", None, False],
                       "params": [["w", ["write"], []]], "ret": None})
        else:
            ms.append({"name": "canary_" + f, "attrs": ["#[diplomat::attr(supports = %s, disable)]" % f], "lifetimes": [], "self": None, "params": [], "ret": ["prim", "u8"]})
    ms.append({"name": "dv_demo_new", "attrs": ["#[diplomat::demo(default_constructor)]"], "lifetimes": [], "self": None, "params": [], "ret": ["box", "Canary", []]})
    if demo:
        ms.append({"name": "star_disabled", "attrs": ["#[diplomat::attr(*, disable)]"], "lifetimes": [], "self": ["ref", None, False], "params": [["w", ["write"], []]], "ret": None})
    else:
        ms.append({"name": "star_disabled", "attrs": ["#[diplomat::attr(*, disable)]"], "lifetimes": [], "self": None, "params": [], "ret": ["prim", "u8"]})
    it = {"kind": "opaque", "name": "Canary", "attrs": [], "lifetimes": [], "impls": [{"attrs": [], "methods": ms}]}
    p = {"modules": [{"name": "ffi", "attrs": [], "uses": [], "items": [it]}], "extra_top": [], "config_attrs": []}
    ir.default_order(p["modules"][0])
    return p


def calibrate(art, work):
    """supports table per backend, from canary methods; also validates the `*` base case"""
    table = {}
    entry = os.path.join(work, "canary.rs")
    open(entry, "w").write(ir.render_program(canary_program()))
    for b in tool.BACKENDS:
        d = os.path.join(work, "canary-" + b)
        r = tool.run_backend(art, b, entry, d, config=CONFIGS[b][0])
        if not r.ok:
            raise build.Inconclusive("canary program not accepted by %s: %s" % (b, r.stderr[-300:]))
        got = sym.symbols(b, d)["referenced"]
        if "Canary_star_disabled" in got:
            raise build.Inconclusive("base case broken: a `*`-disabled method is present in %s" % b)
        table[b] = {f: ("Canary_canary_" + f) not in got for f in FLAGS}
    # demo_gen's own files (outside js/) are generated with demo_gen's own support table: calibrate it from its index.mjs
    entry = os.path.join(work, "canary-demo.rs")
    open(entry, "w").write(ir.render_program(canary_program(demo=True)))
    d = os.path.join(work, "canary-demo_gen-own")
    r = tool.run_backend(art, "demo_gen", entry, d, config=CONFIGS["demo_gen"][0])
    if not r.ok:
        raise build.Inconclusive("demo canary program not accepted: %s" % r.stderr[-300:])
    idx = open(os.path.join(d, "index.mjs")).read()
    if '"Canary.starDisabled"' in idx:
        raise build.Inconclusive("base case broken: a `*`-disabled method is rendered by demo_gen")
    table["demo_gen"] = {f: ('"Canary.%s"' % camel("canary_" + f)) not in idx for f in FLAGS}
    return table


@st.composite
def cases(draw):
    over = dict(modules=draw(st.sampled_from([1, 1, 2])), max_types=6, max_methods=3, option=False, callbacks=False, static_slices=False, strs=False)
    for b in tool.BACKENDS:
        over.update(STEER.get(b, {}))
    p = S.profile_for(tool.BACKENDS, **over)
    prog = draw(S.programs(p))
    kotlin_error_attrs(prog)
    add_demo_constructors(prog)
    # a few unreferenced types so that type-level disables cannot orphan a use
    used = {it["name"] for _, it in ir.all_items(prog)}
    free = [n for n in S.TYPE_NAMES if n not in used]
    extra_names = draw(st.permutations(free))[:2]
    for nme in extra_names:
        it = {"kind": "opaque", "name": nme, "attrs": [], "lifetimes": [], "impls": [{"attrs": [], "methods": [
            {"name": "dv_demo_new", "attrs": ["#[diplomat::demo(default_constructor)]"], "lifetimes": [], "self": None, "params": [], "ret": ["box", nme, []]},
            {"name": "peek", "attrs": [], "lifetimes": [], "self": ["ref", None, False], "params": [], "ret": ["prim", "i32"]}]}]}
        prog["modules"][0]["items"].append(it)
    for m in prog["modules"]:
        ir.default_order(m)
    # placements: list of (path, kind, value, formula)
    sites = []
    for mi, mod in enumerate(prog["modules"]):
        sites.append(("module", mi))
        for ii, it in enumerate(mod["items"]):
            if it["name"] in extra_names:
                sites.append(("type", mi, ii))
            else:
                sites.append(("type-rename", mi, ii))
            for pi, impl in enumerate(it.get("impls", [])):
                sites.append(("impl", mi, ii, pi))
                for k, m in enumerate(impl["methods"]):
                    if m["name"] != "dv_demo_new":
                        sites.append(("method", mi, ii, pi, k))
    n = draw(st.integers(2, 6))
    chosen = draw(st.permutations(sites))[:n]
    placements = []
    counter = 0
    disabled_chain = set()
    for site in chosen:
        f = draw(formulas())
        kind = draw(st.sampled_from(["disable", "disable", "rename"]))
        if site[0] == "type-rename":
            kind = "rename"
        if site[0] == "module":
            kind = "disable" if draw(st.integers(0, 3)) == 0 else None
            if kind is None:
                continue
        if site[0] == "impl" and kind == "rename":
            kind = "disable"
        if kind == "disable":
            # never two disables on one chain: module / type / impl / method
            chain = [("module", site[1])]
            if len(site) >= 3:
                chain.append(("type", site[1], site[2]))
            if len(site) >= 4:
                chain.append(("impl",) + tuple(site[1:4]))
            if len(site) >= 5:
                chain.append(("method",) + tuple(site[1:5]))
            if any(c in disabled_chain for c in chain) or any(d[:len(site[1:]) + 1][1:] == tuple(site[1:]) for d in disabled_chain if len(d) > len(site)):
                continue
            key = (site[0] if site[0] != "type-rename" else "type",) + tuple(site[1:])
            disabled_chain.add(key)
        counter += 1
        value = None
        if kind == "rename":
            value = ("RenamedTy%d" if site[0] in ("type", "type-rename") else "renamed_m%d") % counter
        placements.append({"site": list(site), "kind": kind, "value": value, "formula": f})
    # the same directive twice on one inheritance chain (or stacked on one item) under conditions no backend satisfies together:
    # each must still take effect where its own condition holds
    msites = [s_ for s_ in sites if s_[0] == "method"]
    if msites and draw(st.integers(0, 2)) == 0:
        ms = draw(st.sampled_from(msites))
        chain = [("module", ms[1]), ("type", ms[1], ms[2]), ("impl",) + tuple(ms[1:4]), ("method",) + tuple(ms[1:5])]
        if not any(c in disabled_chain for c in chain):
            b1, b2 = draw(st.permutations(["c", "cpp", "js", "dart", "kotlin", "nanobind"]))[:2]
            upper = ("impl",) + tuple(ms[1:4]) if draw(st.booleans()) else ("method",) + tuple(ms[1:5])
            placements.append({"site": list(upper), "kind": "disable", "value": None, "formula": ("name", b1)})
            placements.append({"site": list(ms), "kind": "disable", "value": None, "formula": ("name", b2)})
            disabled_chain.add(("method",) + tuple(ms[1:5]))
    # a rename pattern on an impl block (inherited by its methods) next to whatever the methods carry themselves: the method's
    # own rename is the more specific one
    isites = [s_ for s_ in sites if s_[0] == "impl" and target_of(prog, s_)["methods"]]
    if isites and draw(st.integers(0, 2)) == 0:
        isite = draw(st.sampled_from(isites))
        counter += 1
        placements.append({"site": list(isite), "kind": "rename", "value": "dvimpl%d_{0}" % counter, "formula": draw(st.one_of(formulas(), st.just(("star",))))})
        own = [s_ for s_ in msites_all(sites, isite) if not any(pl["site"] == list(s_) and pl["kind"] == "rename" for pl in placements)]
        if own and draw(st.booleans()):
            ms_ = draw(st.sampled_from(own))
            counter += 1
            placements.append({"site": list(ms_), "kind": "rename", "value": "renamed_m%d" % counter, "formula": draw(st.one_of(formulas(), st.just(("star",))))})
    # a disable inherited from an enclosing item (type, impl) plus one on the method itself, under conditions that may hold
    # together: the method is then simply disabled (both-true must not be an error)
    if msites and draw(st.integers(0, 2)) == 0:
        ms = draw(st.sampled_from(msites))
        chain = [("module", ms[1]), ("type", ms[1], ms[2]), ("impl",) + tuple(ms[1:4]), ("method",) + tuple(ms[1:5])]
        tname = prog["modules"][ms[1]]["items"][ms[2]]["name"]
        if not any(c in disabled_chain for c in chain):
            uppers = [("impl",) + tuple(ms[1:4])]
            if tname in extra_names:
                uppers.append(("type", ms[1], ms[2]))
            upper = draw(st.sampled_from(uppers))
            f1 = draw(formulas())
            f2 = draw(st.one_of(st.just(f1), formulas(), st.just(("star",))))
            placements.append({"site": list(upper), "kind": "disable", "value": None, "formula": f1})
            placements.append({"site": list(ms), "kind": "disable", "value": None, "formula": f2})
            disabled_chain.add(("method",) + tuple(ms[1:5]))
            disabled_chain.add(upper)
    return prog, placements


def msites_all(sites, isite):
    return [s_ for s_ in sites if s_[0] == "method" and tuple(s_[1:4]) == tuple(isite[1:4])]


def attr_text(kind, value, formula_text):
    if kind == "disable":
        return "#[diplomat::attr(%s, disable)]" % formula_text
    return '#[diplomat::attr(%s, rename = "%s")]' % (formula_text, value)


def target_of(prog, site):
    k = site[0]
    mod = prog["modules"][site[1]]
    if k == "module":
        return mod
    it = mod["items"][site[2]]
    if k in ("type", "type-rename"):
        return it
    impl = it["impls"][site[3]]
    if k == "impl":
        return impl
    return impl["methods"][site[4]]


def instantiate(prog, placements, mode, backend=None, table=None):
    """mode 'cfg': formulas as drawn; mode 'resolved': `*` where true for backend, attribute dropped where false"""
    p = copy.deepcopy(prog)
    for pl in placements:
        tgt = target_of(p, pl["site"])
        if mode == "cfg":
            tgt["attrs"].append(attr_text(pl["kind"], pl["value"], cfgm.render(pl["formula"])))
        else:
            if cfgm.evaluate(pl["formula"], backend, table[backend]):
                tgt["attrs"].append(attr_text(pl["kind"], pl["value"], "*"))
    return p


def enabled_symbols(prog, placements, backend, table):
    """model: symbols the backend must refer to, with inheritance of disable"""
    dis = set()
    for pl in placements:
        if pl["kind"] == "disable" and cfgm.evaluate(pl["formula"], backend, table[backend]):
            s = pl["site"]
            dis.add((s[0] if s[0] != "type-rename" else "type",) + tuple(s[1:]))
    out = set()
    for mi, mod in enumerate(prog["modules"]):
        if ("module", mi) in dis:
            continue
        for ii, it in enumerate(mod["items"]):
            if ("type", mi, ii) in dis:
                continue
            if it["kind"] == "opaque":
                out.add(naming.dtor_symbol(mod, it))
            for pi, impl in enumerate(it.get("impls", [])):
                if ("impl", mi, ii, pi) in dis:
                    continue
                for k, m in enumerate(impl["methods"]):
                    if ("method", mi, ii, pi, k) in dis:
                        continue
                    out.add(naming.method_symbol(mod, it, impl, m))
    return out


def rename_effects(prog, placements, b, table, files):
    """None, or a message: a true rename (own value, or the impl block's pattern applied to the method name) that the output does not show"""
    norm = lambda x: re.sub(r"[^a-z0-9]", "", x.lower())
    text = norm(" ".join(list(files) + [v.decode(errors="replace") for v in files.values()]))
    true = [pl for pl in placements if cfgm.evaluate(pl["formula"], b, table[b])]
    dis = {tuple(pl["site"][1:]) for pl in true if pl["kind"] == "disable"}

    def disabled(site):
        rest = tuple(site[1:])
        return any(rest[:n] in dis for n in range(1, len(rest) + 1))
    for pl in true:
        if pl["kind"] != "rename" or disabled(pl["site"]):
            continue
        k = pl["site"][0]
        if k in ("type", "type-rename", "method"):
            if k == "method" and sum(1 for q in true if q["kind"] == "rename" and q["site"] == pl["site"]) > 1:
                continue
            if norm(pl["value"]) not in text:
                return "the %s carries `rename = \"%s\"` under a condition that holds here, but the name appears nowhere in the output" % ("method" if k == "method" else "type", pl["value"])
        elif k == "impl":
            impl = target_of(prog, pl["site"])
            for mk, m in enumerate(impl["methods"]):
                msite = ["method"] + list(pl["site"][1:]) + [mk]
                if disabled(msite) or any(q["kind"] == "rename" and q["site"] == msite for q in true) or m["name"] == "dv_demo_new":
                    continue
                exp = pl["value"].replace("{0}", m["name"])
                if norm(exp) not in text:
                    return "the impl block carries the pattern `rename = \"%s\"` under a condition that holds here, but `%s` appears nowhere in the output" % (pl["value"], exp)
    return None


def interesting(placements, table):
    for pl in placements:
        vals = {cfgm.evaluate(pl["formula"], b, table[b]) for b in tool.BACKENDS}
        if len(vals) == 2 and pl["formula"][0] in ("not", "any", "all"):
            return True
        if pl["site"][0] in ("module", "impl"):
            return True
    return False


def check_backend(art, work, prog, placements, b, table):
    pc = instantiate(prog, placements, "cfg")
    pr_ = instantiate(prog, placements, "resolved", b, table)
    e1 = os.path.join(work, "cfg.rs")
    e2 = os.path.join(work, "res.rs")
    s1, s2 = ir.render_program(pc), ir.render_program(pr_)
    open(e1, "w").write(s1)
    open(e2, "w").write(s2)
    # the command line's other spelling of the nanobind target must answer to the same backend names (every other program)
    target = "py-nanobind" if b == "nanobind" and (zlib.crc32(s1.encode()) & 1) else b
    r1 = tool.run_backend(art, target, e1, os.path.join(work, "o1"), config=CONFIGS[b][0])
    r2 = tool.run_backend(art, b, e2, os.path.join(work, "o2"), config=CONFIGS[b][0])
    truth = ["%s => %s" % (cfgm.render(pl["formula"]), cfgm.evaluate(pl["formula"], b, table[b])) for pl in placements]
    if r1.classify() != r2.classify():
        if r1.classify() == "panic" or r2.classify() == "panic":
            return "skip", None
        if b == "demo_gen" and not r1.ok:
            # demo_gen's nested js run evaluates the conditions as backend `js`: a disable that holds for js only may leave a
            # dangling use there. That outcome must then be the one of the program resolved for js.
            pj = instantiate(prog, placements, "resolved", "js", table)
            e3 = os.path.join(work, "resjs.rs")
            open(e3, "w").write(ir.render_program(pj))
            r3 = tool.run_backend(art, b, e3, os.path.join(work, "o3"), config=CONFIGS[b][0])
            if r3.classify() == r1.classify():
                return "both-rejected", None
        return "fail", "%s: outcome %s with the conditional attributes but %s with their resolved form (%s)\n%s\n--- lib.rs ---\n%s" % (
            b, r1.classify(), r2.classify(), truth, (r1.stderr or r2.stderr)[-400:], s1)
    if not r1.ok:
        # disabling methods only removes things: the same program without its method- and impl-level disables has a superset
        # of the methods, so if that one is accepted this one must be (an inherited disable plus an own one is "disabled")
        inner = [pl for pl in placements if pl["kind"] == "disable" and pl["site"][0] in ("impl", "method")]
        if b == "demo_gen":
            # (not monotone there: disabling the impl that holds a type's demo default constructor makes its users unrenderable)
            inner = [pl for pl in inner if not (pl["site"][0] == "impl" and any(m["name"] == "dv_demo_new" for m in target_of(prog, pl["site"])["methods"]))]
        if inner:
            rest = [pl for pl in placements if pl not in inner]
            e4 = os.path.join(work, "outer.rs")
            open(e4, "w").write(ir.render_program(instantiate(prog, rest, "cfg")))
            r4 = tool.run_backend(art, b, e4, os.path.join(work, "o4"), config=CONFIGS[b][0])
            if r4.ok:
                return "fail", "%s: rejected with its method/impl-level disables (%s) but accepted without them: disabling a method must not turn an accepted bridge into an error\n%s\n--- lib.rs ---\n%s" % (
                    b, truth, (r1.stderr or "")[-400:], s1)
        return "both-rejected", None
    f1, f2 = r1.files(), r2.files()
    if b == "demo_gen":
        # the bindings under js/ are produced by a nested run of the *js* backend (backend name "js"): they must match the
        # program resolved for js, everything else the program resolved for demo_gen
        pj = instantiate(prog, placements, "resolved", "js", table)
        e3 = os.path.join(work, "resjs.rs")
        open(e3, "w").write(ir.render_program(pj))
        r3 = tool.run_backend(art, b, e3, os.path.join(work, "o3"), config=CONFIGS[b][0])
        f3 = r3.files() if r3.ok else {}
        if r3.ok:
            f2 = {k: (f3.get(k) if k.startswith("js/") else v) for k, v in list(f2.items()) + [(k, None) for k in f3 if k.startswith("js/") and k not in f2]}
            f2 = {k: v for k, v in f2.items() if v is not None}
        else:
            f1 = {k: v for k, v in f1.items() if not k.startswith("js/")}
            f2 = {k: v for k, v in f2.items() if not k.startswith("js/")}
    diff = [k for k in sorted(set(f1) | set(f2)) if f1.get(k) != f2.get(k)]
    if diff:
        k = diff[0]
        return "fail", "%s: output differs from the output with resolved conditions (%s) in %s\n--- lib.rs ---\n%s\n--- %s with conditions ---\n%s\n--- %s resolved ---\n%s" % (
            b, truth, diff[:5], s1, k, (f1.get(k) or b"<missing>").decode(errors="replace")[:900], k, (f2.get(k) or b"<missing>").decode(errors="replace")[:900])
    # a rename whose condition holds must be visible in the backends that render renamed names (and the most specific one wins)
    if b in ("cpp", "js", "dart", "nanobind"):
        msg = rename_effects(prog, placements, b, table, f1)
        if msg:
            return "fail", "%s: %s (%s)\n--- lib.rs ---\n%s" % (b, msg, truth, s1)
    want = enabled_symbols(prog, placements, "js" if b == "demo_gen" else b, table)
    got = sym.symbols(b, os.path.join(work, "o1"))["referenced"]
    if got != want:
        return "fail", "%s: symbols used differ from the model's enabled set (%s): extra %s, missing %s\n--- lib.rs ---\n%s" % (
            b, truth, sorted(got - want)[:6], sorted(want - got)[:6], s1)
    return "ok", None


def worker(widx, seed, params):
    art = build.ensure_repo_artifacts()
    work = build.workdir("c13-w%d" % widx)
    table = calibrate(art, work)
    acc = pbt.Acc("C13", max_violations=6)

    def body(case):
        if acc.full():
            return
        prog, placements = case
        if not placements:
            return
        nt = interesting(placements, table)
        pc = instantiate(prog, placements, "cfg")
        src = ir.render_program(pc)
        exported, err = nm_symbols(art, work, src)
        if exported is None:
            acc.violation("the crate with conditional attributes does not compile: %s\n--- lib.rs ---\n%s" % (err[-600:], src), {"program": prog, "placements": placements, "kind": "rustc"}, signature="rustc")
            return
        want_all = naming.exported(pc)
        acc.case([ir.dumps(pc), "nm"], nt, ["nm:ok"])
        if exported != want_all:
            acc.violation("the Rust library no longer exports every function: missing %s extra %s\n--- lib.rs ---\n%s" % (sorted(want_all - exported)[:6], sorted(exported - want_all)[:6], src),
                          {"program": prog, "placements": placements, "kind": "nm"}, signature="nm")
        for pl in placements:
            acc.labels["placement:%s:%s" % (pl["site"][0], pl["kind"])] += 1
            acc.labels["formula-depth:%d" % cfgm.depth(pl["formula"])] += 1
        for b in tool.BACKENDS:
            status, msg = check_backend(art, work, prog, placements, b, table)
            acc.case([ir.dumps(pc), b], nt and status in ("ok", "both-rejected"), ["%s:%s" % (b, status)],
                     sample={"backend": b, "truth": ["%s => %s" % (cfgm.render(pl["formula"]), cfgm.evaluate(pl["formula"], b, table[b])) for pl in placements], "lib_rs": src[:1500]})
            if status == "fail":
                sig = "%s|%s" % (b, msg.split("(")[0][:50])
                if not any(v["signature"] == sig for v in acc.violations):
                    # reduce: drop placements one at a time
                    pls = list(placements)
                    for i in range(len(pls) - 1, -1, -1):
                        trial = pls[:i] + pls[i + 1:]
                        if trial and check_backend(art, work, prog, trial, b, table)[0] == "fail":
                            pls = trial
                    st2, m2 = check_backend(art, work, prog, pls, b, table)
                    acc.violation(m2 if st2 == "fail" else msg, {"program": prog, "placements": pls if st2 == "fail" else placements, "backend": b, "kind": "backend"}, signature=sig)

    pbt.explore(cases(), body, params["n"], seed)
    build.rm_workdir(work)
    r = acc.result()
    r["extra"]["supports_table"] = 1
    return r


def formula_worker(widx, seed, params):
    """cheap leg: formula evaluation only (no backend run): the in-process lowering of a one-method module vs the evaluator"""
    pr = probe_mod.Probe()
    acc = pbt.Acc("C13", max_violations=4)

    @st.composite
    def fc(draw):
        f = draw(formulas())
        b = draw(st.sampled_from(tool.BACKENDS))
        sup = {fl: draw(st.booleans()) for fl in FLAGS}
        return f, b, sup

    def body(case):
        if acc.full():
            return
        f, b, sup = case
        src = ("#[diplomat::bridge]\npub mod ffi {\n    #[diplomat::opaque]\n    pub struct A(u8);\n    impl A {\n        #[diplomat::attr(%s, disable)]\n"
               "        pub fn target(&self) {}\n        pub fn other(&self) {}\n    }\n}\n") % cfgm.render(f)
        rep = pr.ask(src, support=sup, backend=b, other_names=["js"] if b == "demo_gen" else [], list_types=True)
        want = cfgm.evaluate(f, b, sup)
        acc.case([cfgm.render(f), b, sorted(k for k, v in sup.items() if v)], cfgm.depth(f) >= 1, ["formula-only:depth-%d" % cfgm.depth(f)],
                 sample={"formula": cfgm.render(f), "backend": b, "expected_disabled": want})
        if rep["status"] != "ok":
            acc.violation("lowering failed for formula %s: %s" % (cfgm.render(f), rep), {"formula": f, "backend": b, "support": sup, "kind": "formula"}, signature="formula-error")
            return
        ms = rep["types"][0]["methods"]
        got = "target" not in ms
        if got != want:
            acc.violation("formula %s for backend %s with supports %s: evaluator says %s, lowering %s the method" % (
                cfgm.render(f), b, sorted(k for k, v in sup.items() if v), want, "disabled" if got else "kept"),
                {"formula": f, "backend": b, "support": sup, "kind": "formula"}, signature="formula-eval")

    pbt.explore(fc(), body, params["n"], seed)
    pr.close()
    return acc.result()


def run(ctx):
    n = 12 if ctx.quick else 300
    nf = 3000 if ctx.quick else 60000
    build.ensure_rs("dv-probe", "release")
    m = pbt.run_workers("checks.c13", "worker", 14, ctx.seed, {"n": n})
    mf = pbt.run_workers("checks.c13", "formula_worker", 8, ctx.seed + 5, {"n": nf})
    labels = dict(m["labels"])
    labels.update(mf["labels"])
    cov = {"evaluations": m["evaluations"] + mf["evaluations"], "distinct_nontrivial": m["distinct_nontrivial"] + mf["distinct_nontrivial"], "rule": RULE,
           "samples": m["samples"][:3] + mf["samples"][:1], "labels": labels}
    return {"coverage": cov, "assumptions": ASSUME, "violations": m["violations"] + mf["violations"]}


def replay(ctx):
    c = json.load(open(ctx.replay))["case"]
    if c["kind"] == "formula":
        pr = probe_mod.Probe()
        f = json.loads(json.dumps(c["formula"]), object_hook=None)

        def tup(x):
            return tuple(tup(y) if isinstance(y, list) and y and isinstance(y[0], str) else ([tup(z) for z in y] if isinstance(y, list) else y) for y in x)
        f = tup(f)
        src = ("#[diplomat::bridge]\npub mod ffi {\n    #[diplomat::opaque]\n    pub struct A(u8);\n    impl A {\n        #[diplomat::attr(%s, disable)]\n"
               "        pub fn target(&self) {}\n        pub fn other(&self) {}\n    }\n}\n") % cfgm.render(f)
        rep = pr.ask(src, support=c["support"], backend=c["backend"], other_names=["js"] if c["backend"] == "demo_gen" else [], list_types=True)
        pr.close()
        want = cfgm.evaluate(f, c["backend"], c["support"])
        got = rep["status"] == "ok" and "target" not in rep["types"][0]["methods"]
        print(cfgm.render(f), "expected disabled:", want, "lowering:", got)
        return {"violations": [{"replay": ctx.replay, "message": "evaluation differs"}] if got != want else []}
    art = build.ensure_repo_artifacts()
    work = build.workdir("c13-replay")
    table = calibrate(art, work)

    def tup(x):
        if isinstance(x, list) and x and isinstance(x[0], str):
            return tuple(tup(y) for y in x)
        if isinstance(x, list):
            return [tup(y) for y in x]
        return x
    pls = c["placements"]
    for pl in pls:
        pl["formula"] = tup(pl["formula"])
    v = []
    for b in ([c["backend"]] if c.get("backend") else tool.BACKENDS):
        st_, msg = check_backend(art, work, c["program"], pls, b, table)
        if st_ == "fail":
            print(msg[:3000])
            v.append({"replay": ctx.replay, "message": msg[:1500]})
    build.rm_workdir(work)
    return {"violations": v}
