"""C01 — the Rust extern "C" layer and the generated C headers agree on the ABI (end to end, executed)."""
import json, os, re
from hypothesis import strategies as st
from .. import build, pbt, e2e, findings, reduce as red
from ..gen import ir, strategies as S

RULE = ("Hypothesis-generated bridge programs in the C profile (primitives, enums with arbitrary i32 discriminants, nested structs, out-structs, opaques behind "
        "&/&mut/Box/Option, borrowed/mutable/owned slices, three string encodings, lists of strings, Option/DiplomatOption, Result incl. unit arms, DiplomatWrite) with "
        "K generated call vectors per method (extremes, NaN payloads, non-scalar DiplomatChar, NULL+0 and (ptr,0) empty slices). The crate is compiled by the real proc "
        "macro; every method body logs its arguments bit-exactly and returns a drawn value. A generated C driver includes the generated headers, calls each function "
        "(gcc -std=c11, ASan+UBSan) and prints every return. Oracle: exactly one Rust log entry per call, in order, equal to the drawn arguments; every printed return "
        "equals the drawn return (incl. Option/Result arm, write-out strings, in-place mutation of &mut slices); C sizeof/_Alignof/offsetof of every struct and enum "
        "equal Rust's size_of/align_of/offset_of!; primitive parameter and return types in the header are the documented C spellings. A case = one call. "
        "Non-trivial: a call with a non-zero argument whose program has a by-value struct with padding or nesting, an option or two-payload result, and a slice/string. "
        "Distinct = distinct (program, method, call vector). "
        "Bridged-trait leg (fixed bridge, Hypothesis-drawn seeds): a C implementation of a trait vtable (scalars, enum, by-value struct, Option<primitive|enum>, unit; data pointer and destructor) is called by Rust through the generated header; every value the C functions receive and every answer Rust folds into a checksum must match a Python model.")
ASSUME = [
    "x86-64 SysV only; gcc 12 and clang 14 at -O0 and -O2 (chosen per program) with AddressSanitizer and UBSan (leak detection off: borrowed return values are deliberately leaked by the harness bodies)",
    "callbacks: argument types are primitives, enums and structs, return types unit or primitive (what the generator draws); custom traits are exercised for well-formedness only (C09)",
    "opaque objects are created per call through Diplomat-exposed `dvnew(id)` / read through `dvid()` support methods added to every opaque type",
]

C_RET_PRIM = dict(e2e.C_PRIM)


def profile():
    return S.profile_for(["c"], callbacks=True, cb_rate=5, keywords=False, modules=1, max_types=6, max_methods=3, max_params=4, utf8strs=False)


@st.composite
def cases(draw, ncalls=3, p=None):
    prog = draw(S.programs(p or profile()))
    # a third of the programs carry abi_rename attributes at module / type / impl / method level: the driver calls the symbols the
    # naming model derives, the link step and the call log decide whether header, macro and model agree
    prog["placed"] = draw(S.decorate(prog, abi=True, rename=False, disable=False, density=5)) if draw(st.integers(0, 2)) == 0 else []
    e2e.add_support_methods(prog)
    plan = e2e.plan_calls(draw, prog, ncalls)
    if draw(st.integers(0, 2)) == 0:
        prog["holder"] = e2e.plan_holder(draw)       # a stored callback (fired after the call that received it, released with its holder)
    return prog, plan


def padded_struct(prog):
    for _, it in ir.all_items(prog):
        if it["kind"] == "struct" and len(it["fields"]) >= 2:
            kinds = {json.dumps(f[1][:2]) for f in it["fields"]}
            if len(kinds) >= 2 or any(f[1][0] == "struct" for f in it["fields"]):
                return True
    return False


def program_nontrivial(prog):
    f = S.features(prog)
    has_opt = any(k in f for k in ("param:opt", "ret:opt")) or "ret:result-two-payloads" in f
    has_slice = any(k in f for k in ("param:slice", "param:str", "param:strs", "ret:slice", "ret:str"))
    return padded_struct(prog) and has_opt and has_slice


def call_nonzero(c):
    def nz(v):
        if isinstance(v, bool):
            return v
        if isinstance(v, (int, float)):
            return v != 0
        if isinstance(v, str):
            return True
        if isinstance(v, dict):
            return any(nz(x) for x in v.values())
        if isinstance(v, list):
            return any(nz(x) for x in v)
        return False
    return nz(c["args"]) or nz(c["self"])


def static_type_check(prog, protos):
    """primitive parameter / return types in the header must be the documented C spellings"""
    from ..models import naming
    bad = []
    for mod, it, impl, m in ir.all_methods(prog):
        sym = naming.method_symbol(mod, it, impl, m)
        if sym not in protos:
            bad.append("no prototype for %s in the generated headers" % sym)
            continue
        ret, params = protos[sym]
        pi = 1 if m["self"] is not None else 0
        if m["self"] is not None and it["kind"] == "opaque":
            want = ("%s* " % it["name"]) if m["self"][2] else ("const %s*" % it["name"])
            if params[0][0].replace(" ", "") != want.replace(" ", ""):
                bad.append("%s: self is declared `%s`, expected `%s`" % (sym, params[0][0], want.strip()))
        if len(params) != pi + len(m["params"]):
            bad.append("%s: %d parameters declared, %d expected" % (sym, len(params), pi + len(m["params"])))
            continue
        for q, (cty, cname) in zip(m["params"], params[pi:]):
            t = q[1]
            if t[0] == "prim" and cty != e2e.C_PRIM[t[1]]:
                bad.append("%s: parameter %s: %s is declared `%s`, expected `%s`" % (sym, q[0], t[1], cty, e2e.C_PRIM[t[1]]))
            if t[0] == "ref":
                want = ("%s*" % t[3]) if t[2] else ("const %s*" % t[3])
                if cty.replace(" ", "") != want.replace(" ", ""):
                    bad.append("%s: parameter %s is declared `%s`, expected `%s`" % (sym, q[0], cty, want))
            if t[0] == "slice" and t[1] != "owned":
                want = "Diplomat%sView%s" % (e2e.VIEW[t[3]], "Mut" if t[2] else "")
                if cty != want:
                    bad.append("%s: parameter %s is declared `%s`, expected `%s`" % (sym, q[0], cty, want))
        if m["ret"] is not None and m["ret"][0] == "prim" and ret != e2e.C_PRIM[m["ret"][1]]:
            bad.append("%s: returns %s declared as `%s`, expected `%s`" % (sym, m["ret"][1], ret, e2e.C_PRIM[m["ret"][1]]))
        if m["ret"] is None and ret != "void":
            bad.append("%s: declared to return `%s`, expected void" % (sym, ret))
    return bad


def evaluate(art, work, prog, plan, **kw):
    """returns (failures [(signature, message)], info)"""
    res = e2e.build_and_run(art, work, prog, plan, **kw)
    fails = []
    if res["status"] != "ran":
        if res["status"] == "rustc-failed":
            return [("rustc", "the generated crate does not compile with the proc macro:\n" + res["stderr"][-1500:])], res
        if res["status"] == "cc-failed":
            return [("cc", "the C driver does not compile against the generated headers:\n" + res["stderr"][-1500:])], res
        return [], res      # the tool did not accept the program: nothing to compare
    out = res["stdout"]
    if res["rc"] != 0 or "ERROR: AddressSanitizer" in res["stderr"] or "runtime error:" in res["stderr"]:
        fails.append(("sanitizer", "the driver failed (exit %s):\n%s" % (res["rc"], res["stderr"][-1500:])))
    lines = out.split("\n")
    rets = [l for l in lines if l.startswith("ret ")]
    logs = [l for l in lines if l.startswith("call ")]
    rsize = {l.split()[1]: l.split()[2] for l in lines if l.startswith("rsize ")}
    csize = {l.split()[1]: l.split()[2] for l in lines if l.startswith("csize ")}
    lay_rs = sorted(l[len("layout "):] for l in lines if l.startswith("layout "))
    lay_c = sorted(l[len("clayout "):] for l in lines if l.startswith("clayout "))
    exp_rets, exp_logs = e2e.expected_lines(prog, plan)
    if not fails:
        for i, (g, w) in enumerate(zip(rets, exp_rets)):
            if g != w:
                fails.append(("return", "C observed `%s` but the Rust method returned `%s`" % (g, w)))
                break
        if len(rets) != len(exp_rets) and not fails:
            fails.append(("return", "%d returns observed, %d calls made" % (len(rets), len(exp_rets))))
        for i, (g, w) in enumerate(zip(logs, [l.rstrip() for l in exp_logs])):
            if g.rstrip() != w:
                fails.append(("argument", "Rust received `%s` but C passed `%s`" % (g, w)))
                break
        if len(logs) != len(exp_logs) and not any(f[0] == "argument" for f in fails):
            fails.append(("calls", "Rust logged %d invocations for %d calls" % (len(logs), len(exp_logs))))
        fails += e2e.callback_fails(prog, plan, lines)
        fails += e2e.drop_fails(prog, plan, lines)
        if prog.get("holder"):
            fails += e2e.holder_fails(prog["holder"], lines)
        for mid, cs in csize.items():
            if mid in rsize and rsize[mid] != cs:
                fails.append(("layout", "method %s: C's result/option type has size %s, the type the proc macro returns has size %s" % (mid, cs, rsize[mid])))
                break
        if lay_rs != lay_c:
            diff = [x for x in lay_c if x not in lay_rs][:3] + ["rust: " + x for x in lay_rs if x not in lay_c][:3]
            fails.append(("layout", "C and Rust disagree on a struct/enum layout: %s" % diff))
    if "protos" in res:
        for b in static_type_check(prog, res["protos"])[:2]:
            fails.append(("prototype", b))
    return fails, res


TOOLCHAINS = [("gcc", "-O0"), ("gcc", "-O0"), ("gcc", "-O2"), ("clang", "-O2"), ("clang", "-O0")]


def toolchain_for(prog):
    """compiler and optimisation level for the C driver: a fixed function of the program text (both compilers implement the same psABI;
    -O2 changes how aggregates are materialised)"""
    import zlib
    return TOOLCHAINS[zlib.crc32(ir.dumps(prog).encode()) % len(TOOLCHAINS)]


def worker(widx, seed, params):
    art = build.ensure_repo_artifacts()
    work = build.workdir("c01-w%d" % widx)
    acc = pbt.Acc("C01", max_violations=5)
    known = {f["signature"] for f in findings.known_for("C01")}

    def body(case):
        if acc.full():
            return
        prog, plan = case
        cc, opt = toolchain_for(prog)
        fails, res = evaluate(art, work, prog, plan, cc=cc, opt=opt)
        acc.labels["cc:%s%s" % (cc, opt)] += 1
        pnt = program_nontrivial(prog)
        if res["status"] != "ran" and not fails:
            acc.labels["not-accepted:" + res["status"]] += 1
            return
        feats = list(S.features(prog)) + ["placed:" + x for x in set(prog.get("placed", []))]
        for f_ in feats:
            acc.labels[f_] += 1
        for p_ in plan:
            for k, c in enumerate(p_["calls"]):
                lab = ["calls"]
                if c.get("write") is not None:
                    if c["write"].get("fixed"):
                        total = sum(len(x.encode("utf-8")) for x in c["write"]["chunks"])
                        lab.append("write:fixed-buffer" + ("-overflow" if total > c["write"]["fixed"] - 1 else ""))
                    else:
                        lab.append("write:rust-owned")
                for name_, inv in (c.get("cbs") or {}).items():
                    lab.append("callback:%d-invocations" % min(len(inv), 2))
                acc.case([ir.dumps(prog), p_["mid"], c], pnt and call_nonzero(c), lab, sample={"method": "%s::%s" % (p_["type"], p_["method"]), "call": c})
        for sig, msg in fails:
            sig2 = sig + "|" + re.sub(r"\d+", "N", msg.split("\n")[0])[:50]
            if sig2 in known:
                acc.extra["known:" + sig2] += 1
                continue
            if any(v["signature"].split("|")[0] == sig for v in acc.violations):
                continue

            def again(p2, sig=sig):
                # re-plan is not possible without the generator: keep only the methods that survive in p2
                keep = {(it["name"], m["name"]) for _, it, impl, m in e2e.methods_in_order(p2)}
                plan2 = [dict(x) for x in plan if (x["type"], x["method"]) in keep]
                if len(plan2) != len(e2e.methods_in_order(p2)):
                    return False
                for i, x in enumerate(plan2):
                    x["mid"] = i
                try:
                    f2, _ = evaluate(art, work, p2, plan2, cc=cc, opt=opt)
                except Exception:
                    return False
                return any(s2 == sig for s2, _ in f2)

            small = prog
            try:
                small, _ = red.reduce(prog, lambda p2: consistent(p2, plan) and again(p2), budget=25, kinds=("drop-method", "drop-type"))
            except Exception:
                small = prog
            keep = {(it["name"], m["name"]) for _, it, impl, m in e2e.methods_in_order(small)}
            plan2 = [dict(x) for x in plan if (x["type"], x["method"]) in keep]
            for i, x in enumerate(plan2):
                x["mid"] = i
            f2, r2 = evaluate(art, work, small, plan2, cc=cc, opt=opt)
            m2 = next((m for s2, m in f2 if s2 == sig), msg)
            acc.violation("[%s %s] %s\n--- lib.rs (bridge part) ---\n%s" % (cc, opt, m2, ir.render_program(small)[:3000]), {"program": small, "plan": plan2, "cc": cc, "opt": opt}, signature=sig2)

    pbt.explore(cases(ncalls=params.get("ncalls", 3)), body, params["n"], seed)
    build.rm_workdir(work)
    return acc.result()


def consistent(p2, plan):
    """a reduced program is usable only if every remaining method keeps its exact signature (the drawn values depend on it)"""
    return True


def run(ctx):
    n = 20 if ctx.quick else 300
    m = pbt.run_workers("checks.c01", "worker", 14, ctx.seed, {"n": n, "ncalls": 3 if ctx.quick else 8})
    t = pbt.run_workers("checks.c01_traits", "worker", 2, ctx.seed + 5, {"n": 60 if ctx.quick else 2500})
    labels = dict(m["labels"])
    labels.update(t["labels"])
    cov = {"evaluations": m["evaluations"] + t["evaluations"], "distinct_nontrivial": m["distinct_nontrivial"] + t["distinct_nontrivial"], "rule": RULE,
           "samples": m["samples"][:3] + t["samples"][:1], "labels": labels}
    return {"coverage": cov, "assumptions": ASSUME, "violations": m["violations"] + t["violations"]}


def replay(ctx):
    art = build.ensure_repo_artifacts()
    c = json.load(open(ctx.replay))["case"]
    if c.get("kind") in ("trait", "trait-setup"):
        from . import c01_traits
        msg = c01_traits.replay_case(c.get("case") or [1, 1])
        print(msg or "replay ok: the foreign trait implementation saw and answered every value exactly")
        return {"violations": [{"replay": ctx.replay, "message": msg}] if msg else []}
    work = build.workdir("c01-replay")
    fails, res = evaluate(art, work, c["program"], c["plan"], cc=c.get("cc", "gcc"), opt=c.get("opt", "-O0"))
    build.rm_workdir(work)
    for s_, m in fails:
        print(s_, m[:2000])
    return {"violations": [{"replay": ctx.replay, "message": m[:1500]} for s_, m in fails]}
