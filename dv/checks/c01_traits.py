"""C01, bridged-trait leg: a foreign implementation of a bridged trait, driven through the generated C header.

A trait object is a bundle of callbacks (data pointer + vtable of C function pointers). One fixed bridge declares a trait
whose methods take and return scalars, an enum, a by-value struct, Option<primitive> / Option<enum> and unit; a Rust method
`DvHost::run(t: impl DvTr, seed, rounds)` derives arguments from `seed`, calls every trait method and folds what comes back
into a checksum. The C driver implements the vtable (each function logs what it received and answers by a fixed formula),
Hypothesis draws (seed, rounds) lists, and a Python model predicts every log line and the checksum.
"""
import os, struct, subprocess
from hypothesis import strategies as st
from .. import build, compilers, pbt, tool

BRIDGE = r'''#![allow(warnings)]
#[diplomat::bridge]
pub mod ffi {
    pub enum DvEn { A = 1, B = -3, C = 700 }
    pub struct DvSt { pub a: u8, pub b: u32, pub c: f64 }
    pub trait DvTr {
        fn m_scalar(&self, x: i32, y: u8, z: i64) -> i64;
        fn m_agg(&self, e: DvEn, s: DvSt) -> DvEn;
        fn m_opt(&self, o: Option<u16>, p: Option<DvEn>) -> Option<u8>;
        fn m_st(&self, f: f64, g: bool) -> DvSt;
        fn m_unit(&self);
    }
    #[diplomat::opaque]
    pub struct DvHost(u8);
    impl DvHost {
        pub fn run(t: impl DvTr, seed: u32, rounds: u8) -> u64 {
            let mut s = seed;
            let mut acc: u64 = 0;
            let mut fold = |v: u64| { acc = acc.wrapping_mul(31).wrapping_add(v); };
            for _ in 0..rounds {
                s = s.wrapping_mul(1664525).wrapping_add(1013904223);
                let r = t.m_scalar(s as i32, (s >> 8) as u8, ((s as i64) << 20) ^ 0x5555);
                fold(r as u64);
                s = s.wrapping_mul(1664525).wrapping_add(1013904223);
                let e = match s % 3 { 0 => DvEn::A, 1 => DvEn::B, _ => DvEn::C };
                let st = DvSt { a: (s >> 3) as u8, b: s ^ 0xA5A5A5A5, c: ((s >> 5) as f64) * 0.25 };
                let r = t.m_agg(e, st);
                fold(r as i64 as u64);
                s = s.wrapping_mul(1664525).wrapping_add(1013904223);
                let o = if s & 1 == 0 { None } else { Some((s >> 7) as u16) };
                let p = if s & 2 == 0 { None } else { Some(match (s >> 4) % 3 { 0 => DvEn::A, 1 => DvEn::B, _ => DvEn::C }) };
                let r = t.m_opt(o, p);
                fold(match r { None => 0xFFFF, Some(v) => v as u64 });
                s = s.wrapping_mul(1664525).wrapping_add(1013904223);
                let r = t.m_st((s as f64) / 7.0, s & 4 != 0);
                fold(r.a as u64);
                fold(r.b as u64);
                fold(r.c.to_bits());
                t.m_unit();
            }
            acc
        }
    }
}
'''

C_DRIVER = r'''#include <stdio.h>
#include <stdlib.h>
#include <string.h>
#include "diplomat_runtime.h"
#include "DvTr.d.h"
#include "DvHost.h"
static unsigned long long bits(double d) { unsigned long long u; memcpy(&u, &d, 8); return u; }
static void chk(void* d) { if (d == NULL || *(int*)d != 4242) printf("BAD-DATA\n"); }
static int64_t m_scalar(void* d, int32_t x, uint8_t y, int64_t z) { chk(d); printf("S %d %u %lld\n", x, (unsigned)y, (long long)z); return z ^ ((int64_t)x * 2) ^ (int64_t)y; }
static DvEn m_agg(void* d, DvEn e, DvSt s) { chk(d); printf("A %d %u %u %016llx\n", (int)e, (unsigned)s.a, (unsigned)s.b, bits(s.c)); return s.a % 3 == 0 ? DvEn_A : (s.a % 3 == 1 ? DvEn_B : DvEn_C); }
static OptionU8 m_opt(void* d, OptionU16 o, DvEn_option p) {
    chk(d);
    printf("O %d %u %d %d\n", (int)o.is_ok, o.is_ok ? (unsigned)o.ok : 0u, (int)p.is_ok, p.is_ok ? (int)p.ok : 0);
    OptionU8 r; memset(&r, 0xEE, sizeof r);
    if (o.is_ok) { r.ok = (uint8_t)(o.ok & 0xff); r.is_ok = true; } else { r.is_ok = false; }
    return r;
}
static DvSt m_st(void* d, double f, bool g) { chk(d); printf("T %016llx %d\n", bits(f), (int)g); DvSt r; memset(&r, 0, sizeof r); r.a = g ? 7 : 9; r.b = (uint32_t)(bits(f) & 0xffffffffull); r.c = f * 0.5; return r; }
static void m_unit(void* d) { chk(d); printf("U\n"); }
static void destroy(const void* d) { printf("D %d\n", d ? *(const int*)d : -1); free((void*)d); }
int main(int argc, char** argv) {
    setvbuf(stdout, NULL, _IOLBF, 0);
    FILE* f = fopen(argv[1], "r");
    unsigned long seed, rounds;
    while (fscanf(f, "%lu %lu", &seed, &rounds) == 2) {
        int* data = (int*)malloc(sizeof(int));
        *data = 4242;
        DiplomatTraitStruct_DvTr t;
        memset(&t, 0, sizeof t);
        /* the first member is the data pointer handed back to every vtable function (the header calls it `destructor`) */
        memcpy(&t, &data, sizeof(void*));
        t.vtable.destructor = destroy; t.vtable.SIZE = sizeof(int); t.vtable.ALIGNMENT = sizeof(int);
        t.vtable.run_m_scalar_callback = m_scalar; t.vtable.run_m_agg_callback = m_agg; t.vtable.run_m_opt_callback = m_opt;
        t.vtable.run_m_st_callback = m_st; t.vtable.run_m_unit_callback = m_unit;
        printf("C %lu %lu\n", seed, rounds);
        uint64_t r = DvHost_run(t, (uint32_t)seed, (uint8_t)rounds);
        printf("R %llu\n", (unsigned long long)r);
    }
    return 0;
}
'''

M64 = (1 << 64) - 1
DISC = [1, -3, 700]


def fbits(x):
    return struct.unpack("<Q", struct.pack("<d", x))[0]


def model(seed, rounds):
    lines = ["C %d %d" % (seed, rounds)]
    s, acc = seed, 0

    def step(s_):
        return (s_ * 1664525 + 1013904223) & 0xFFFFFFFF

    def fold(a, v):
        return (a * 31 + (v & M64)) & M64
    for _ in range(rounds):
        s = step(s)
        x = s - (1 << 32) if s & 0x80000000 else s
        y = (s >> 8) & 0xFF
        z = (s << 20) ^ 0x5555
        lines.append("S %d %d %d" % (x, y, z))
        acc = fold(acc, z ^ (x * 2) ^ y)
        s = step(s)
        e = DISC[s % 3]
        a, b, c = (s >> 3) & 0xFF, s ^ 0xA5A5A5A5, (s >> 5) * 0.25
        lines.append("A %d %d %d %016x" % (e, a, b, fbits(c)))
        acc = fold(acc, DISC[a % 3])
        s = step(s)
        o = None if s & 1 == 0 else (s >> 7) & 0xFFFF
        p = None if s & 2 == 0 else DISC[(s >> 4) % 3]
        lines.append("O %d %d %d %d" % (o is not None, o or 0, p is not None, p or 0))
        acc = fold(acc, 0xFFFF if o is None else (o & 0xFF))
        s = step(s)
        f, g = s / 7.0, (s & 4) != 0
        lines.append("T %016x %d" % (fbits(f), g))
        acc = fold(acc, 7 if g else 9)
        acc = fold(acc, fbits(f) & 0xFFFFFFFF)
        acc = fold(acc, fbits(f * 0.5))
        lines.append("U")
    lines.append("D 4242")
    lines.append("R %d" % acc)
    return lines


def setup(art, work):
    entry = os.path.join(work, "lib.rs")
    open(entry, "w").write(BRIDGE)
    lib = os.path.join(work, "libdvbridge.a")
    ok, err = compilers.rustc(art, entry, lib, crate_type="staticlib", emit=None)
    if not ok:
        return None, "the bridge with a bridged trait (accepted by the tool's C backend) does not compile:\n" + err[-1200:]
    r = tool.run_backend(art, "c", entry, os.path.join(work, "c"))
    if not r.ok:
        raise build.Inconclusive("C01 trait leg: the c backend rejected the bridge: " + r.stderr[-400:])
    f = os.path.join(work, "driver.c")
    open(f, "w").write(C_DRIVER)
    exe = os.path.join(work, "drv")
    p = subprocess.run(["gcc", "-std=c11", "-O1", "-g", "-w", "-Werror=incompatible-pointer-types", "-Werror=int-conversion", "-fsanitize=address,undefined", "-fno-sanitize-recover=undefined",
                        "-I", r.outdir, f, lib, "-lpthread", "-ldl", "-lm", "-o", exe], stdout=subprocess.PIPE, stderr=subprocess.PIPE, text=True)
    if p.returncode != 0:
        return None, "a C implementation of the trait's vtable does not build against the generated header:\n" + p.stderr[-1500:]
    return exe, None


def run_cases(exe, work, cases):
    fn = os.path.join(work, "cases.txt")
    open(fn, "w").write("".join("%d %d\n" % c for c in cases))
    env = dict(os.environ)
    env["ASAN_OPTIONS"] = "detect_leaks=1:abort_on_error=0"
    try:
        q = subprocess.run([exe, fn], stdout=subprocess.PIPE, stderr=subprocess.PIPE, text=True, timeout=120, env=env, errors="replace")
    except subprocess.TimeoutExpired:
        raise build.Inconclusive("C01 trait driver timed out")
    got = q.stdout.split("\n")
    want = []
    for c in cases:
        want += model(*c)
    for i, w in enumerate(want):
        g = got[i] if i < len(got) else "<missing: exit %d %s>" % (q.returncode, (q.stderr or "")[-400:].replace("\n", " | "))
        if g != w:
            ctx = [l for l in want[:i + 1] if l.startswith("C ")][-1]
            return "case `%s`: line %d is `%s`, expected `%s`" % (ctx, i, g, w)
    if q.returncode != 0:
        return "driver exit %d: %s" % (q.returncode, (q.stderr or "")[-600:].replace("\n", " | "))
    return None


def worker(widx, seed, params):
    art = build.ensure_repo_artifacts()
    work = build.workdir("c01-traits-w%d" % widx)
    acc = pbt.Acc("C01", max_violations=3)
    exe, err = setup(art, work)
    if exe is None:
        acc.case(["setup"], False, ["trait-leg:build-failed"])
        acc.violation("bridged-trait leg: " + err, {"kind": "trait-setup"}, signature="trait|build")
        build.rm_workdir(work)
        return acc.result()

    def body(cases):
        if acc.full():
            return
        for c in cases:
            acc.case(["trait", c], c[1] >= 1, ["trait-call"], sample={"leg": "bridged trait", "seed": c[0], "rounds": c[1], "first_lines": model(*c)[:4]})
        msg = run_cases(exe, work, cases)
        if msg:
            # isolate the first failing case
            for c in cases:
                m1 = run_cases(exe, work, [c])
                if m1:
                    acc.violation("bridged trait implemented in C (vtable of function pointers): " + m1, {"kind": "trait", "case": list(c)}, signature="trait|" + m1.split(":")[1].strip().split(" ")[0] if ":" in m1 else "trait|x")
                    break

    pbt.explore(st.lists(st.tuples(st.integers(0, 2 ** 32 - 1), st.integers(0, 4)), min_size=4, max_size=16), body, params["n"], seed)
    build.rm_workdir(work)
    return acc.result()


def replay_case(case):
    art = build.ensure_repo_artifacts()
    work = build.workdir("c01-traits-replay")
    exe, err = setup(art, work)
    if exe is None:
        build.rm_workdir(work)
        return err
    msg = run_cases(exe, work, [tuple(case)])
    build.rm_workdir(work)
    return msg
