"""C16 — slice/string views round-trip, NULL+0 is the empty slice, diplomat_is_str is exact (Engine R)."""
from .. import rt

RULE = ("views: proptest-generated (element type of 13 primitives + str, length 0..300, raw bit patterns incl. NaN payloads, "
        "optional write-through index, NULL+0 flag); non-trivial = length >= 1. utf8: near-valid generator (valid text incl. long "
        "mostly-ASCII runs, with one truncation / overwrite / ill-formed insertion / deletion) compared with an independent "
        "well-formed-UTF-8 table validator; non-trivial = contains a byte >= 0x80. Plus exhaustive enumeration (see exhaustive_* keys).")

ASSUME = [
    "view structs are observed through their documented {ptr,len} repr(C) layout",
    "the independent validator is Unicode table 3-7 (well-formed UTF-8 byte sequences), not core::str::from_utf8",
    "use-after-free / over-read detection relies on the ASan leg (quick: reduced case count)",
]


def legs(ctx):
    if ctx.quick:
        return [
            dict(name="native", flavor="release", cases=25000, workers=6, extra=["--exhaustive", "0", "--utf8-cases", "150000"]),
            dict(name="exhaustive-len0-3", flavor="release", cases=10, workers=1, extra=["--exhaustive", "3", "--utf8-cases", "10"]),
            dict(name="asan", flavor="asan", cases=4000, workers=3, extra=["--exhaustive", "0", "--utf8-cases", "20000"]),
        ]
    return [
        dict(name="native", flavor="release", cases=300000, workers=10, extra=["--exhaustive", "0", "--utf8-cases", "2000000"]),
        dict(name="exhaustive-len0-3-and-4byte-leads", flavor="release", cases=10, workers=1, extra=["--exhaustive", "4", "--utf8-cases", "10"]),
        dict(name="asan", flavor="asan", cases=60000, workers=4, extra=["--exhaustive", "0", "--utf8-cases", "300000"]),
        dict(name="libfuzzer-c16_views", flavor="fuzz", target="c16_views", runs=1500000, workers=1),
        dict(name="libfuzzer-c16_utf8", flavor="fuzz", target="c16_utf8", runs=6000000, workers=1),
        dict(name="miri", flavor="miri", cases=40, workers=1, extra=['--exhaustive', '0', '--utf8-cases', '200']),
    ]


def run(ctx):
    m = rt.run_legs("C16", legs(ctx), ctx.seed)
    ex = {}
    for name, e in m["extra"].items():
        if e.get("exhaustive_strings"):
            ex = e
    cov = {
        "evaluations": m["evaluations"] + int(ex.get("exhaustive_strings", 0)),
        "distinct_nontrivial": m["distinct_nontrivial"], "rule": RULE,
        "samples": m["samples"], "labels": m["labels"], "legs": m["legs"],
        "exhaustive_subdomain": {
            "strings_enumerated": ex.get("exhaustive_strings", 0), "valid_among_them": ex.get("exhaustive_valid", 0),
            "domain": "all byte strings of length 0..3" + (" and all 4-byte strings with first byte >= 0xF0" if ex.get("exhaustive_mode") == "4" else ""),
            "exhaustive": True,
        },
        "exhaustive": False,
    }
    return {"coverage": cov, "assumptions": ASSUME, "violations": m["violations"]}


def replay(ctx):
    return rt.replay("C16", ctx.replay)
