"""C12, end-to-end leg: chunk sequences written by a real bridge method, read back through the generated C and C++ APIs.

One fixed bridge (`DvW::emit(data, lens, &mut DiplomatWrite)` writes `data` chunk by chunk, `try_emit` also returns a
Result) is compiled with the repository's proc macro and runtime; the generated C header drives it with a Rust-owned
growable writer and with a fixed-size caller buffer (exactly-sized heap block, AddressSanitizer), the generated C++ class
with the std::string-backed writer of diplomat_runtime.hpp. Both drivers are built once and read their cases from a file.
"""
import binascii, json, os, subprocess
from hypothesis import strategies as st
from .. import build, compilers, pbt, tool

BRIDGE = r'''#![allow(warnings)]
#[diplomat::bridge]
pub mod ffi {
    use core::fmt::Write;
    use diplomat_runtime::{DiplomatStr, DiplomatWrite};
    #[diplomat::opaque]
    pub struct DvW(u8);
    impl DvW {
        pub fn emit(data: &DiplomatStr, lens: &[usize], w: &mut DiplomatWrite) {
            let mut off = 0usize;
            for &l in lens {
                let s = core::str::from_utf8(&data[off..off + l]).unwrap();
                let _ = w.write_str(s);
                off += l;
            }
        }
        pub fn try_emit(data: &DiplomatStr, lens: &[usize], fail: bool, w: &mut DiplomatWrite) -> Result<(), u8> {
            let mut off = 0usize;
            for &l in lens {
                let s = core::str::from_utf8(&data[off..off + l]).unwrap();
                let _ = w.write_str(s);
                off += l;
            }
            if fail { Err(7) } else { Ok(()) }
        }
    }
}
'''

COMMON = r'''
static unsigned char* unhex(const char* h, size_t* n) {
    size_t l = strlen(h);
    if (l == 1 && h[0] == '-') { *n = 0; return (unsigned char*)malloc(1); }
    *n = l / 2;
    unsigned char* b = (unsigned char*)malloc(*n ? *n : 1);
    for (size_t i = 0; i < *n; i++) { unsigned v; sscanf(h + 2 * i, "%2x", &v); b[i] = (unsigned char)v; }
    return b;
}
static size_t* lens_of(const char* s, size_t* n) {
    *n = 0;
    size_t* a = (size_t*)malloc(sizeof(size_t) * (strlen(s) + 1));
    if (s[0] == '-') return a;
    const char* p = s;
    while (*p) { a[(*n)++] = (size_t)strtoul(p, (char**)&p, 10); if (*p == ',') p++; }
    return a;
}
static void puthex(const unsigned char* b, size_t n) { if (!n) printf("-"); for (size_t i = 0; i < n; i++) printf("%02x", b[i]); }
'''

C_DRIVER = r'''#include <stdio.h>
#include <stdlib.h>
#include <string.h>
#include "diplomat_runtime.h"
#include "DvW.h"
''' + COMMON + r'''
int main(int argc, char** argv) {
    setvbuf(stdout, NULL, _IOLBF, 0);
    FILE* f = fopen(argv[1], "r");
    static char mode[8], hex[1 << 16], ls[1 << 14];
    unsigned long p1, p2;
    while (fscanf(f, "%7s %65535s %16383s %lu %lu", mode, hex, ls, &p1, &p2) == 5) {
        size_t n, nl;
        unsigned char* data = unhex(hex, &n);
        size_t* lens = lens_of(ls, &nl);
        DiplomatStringView dv = { (const char*)data, n };
        DiplomatUsizeView lv = { lens, nl };
        if (mode[0] == 'b') {             /* Rust-owned growable writer with initial capacity p1 */
            DiplomatWrite* w = diplomat_buffer_write_create(p1);
            if (mode[1] == 'r') { DvW_try_emit_result r = DvW_try_emit(dv, lv, p2 != 0, w); printf("is_ok=%d err=%d ", (int)r.is_ok, r.is_ok ? 0 : (int)r.err); }
            else DvW_emit(dv, lv, w);
            size_t len = diplomat_buffer_write_len(w);
            char* bytes = diplomat_buffer_write_get_bytes(w);
            printf("len=%zu null=%d bytes=", len, bytes == NULL);
            if (bytes) puthex((unsigned char*)bytes, len); else printf("-");
            printf("\n");
            diplomat_buffer_write_destroy(w);
        } else {                          /* fixed caller buffer of exactly p1 bytes */
            char* buf = (char*)malloc(p1);
            memset(buf, 0x7e, p1);
            DiplomatWrite w = diplomat_simple_write(buf, p1);
            if (mode[1] == 'r') { DvW_try_emit_result r = DvW_try_emit(dv, lv, p2 != 0, &w); printf("is_ok=%d err=%d ", (int)r.is_ok, r.is_ok ? 0 : (int)r.err); }
            else DvW_emit(dv, lv, &w);
            size_t z = 0;
            while (z < p1 && buf[z] != 0) z++;
            printf("len=%zu failed=%d nul_at=%zu bytes=", w.len, (int)w.grow_failed, z);
            puthex((unsigned char*)buf, w.len < p1 ? w.len : p1);
            printf("\n");
            free(buf);
        }
        free(data); free(lens);
    }
    return 0;
}
'''

CPP_DRIVER = r'''#include <cstdio>
#include <cstdlib>
#include <cstring>
#include <string>
#include "DvW.hpp"
''' + COMMON + r'''
int main(int argc, char** argv) {
    setvbuf(stdout, NULL, _IOLBF, 0);
    FILE* f = fopen(argv[1], "r");
    static char mode[8], hex[1 << 16], ls[1 << 14];
    unsigned long p1, p2;
    while (fscanf(f, "%7s %65535s %16383s %lu %lu", mode, hex, ls, &p1, &p2) == 5) {
        size_t n, nl;
        unsigned char* data = unhex(hex, &n);
        size_t* lens = lens_of(ls, &nl);
        std::string_view sv((const char*)data, n);
        diplomat::span<const size_t> sp(lens, nl);
        if (mode[0] == 's') {
            std::string out = DvW::emit(sv, sp);
            printf("size=%zu bytes=", out.size()); puthex((const unsigned char*)out.data(), out.size()); printf("\n");
        } else {
            auto r = DvW::try_emit(sv, sp, p2 != 0);
            if (r.is_ok()) { std::string out = std::move(r).ok().value(); printf("ok size=%zu bytes=", out.size()); puthex((const unsigned char*)out.data(), out.size()); printf("\n"); }
            else printf("err=%d\n", (int)std::move(r).err().value());
        }
        free(data); free(lens);
    }
    return 0;
}
'''


def hexs(b):
    return binascii.hexlify(b).decode() if b else "-"


def expected(case):
    chunks = [c.encode("utf-8") for c in case["chunks"]]
    data = b"".join(chunks)
    m = case["mode"]
    if m == "s":
        return "size=%d bytes=%s" % (len(data), hexs(data))
    if m == "t":
        return "err=7" if case["fail"] else "ok size=%d bytes=%s" % (len(data), hexs(data))
    pre = ""
    if m in ("br", "fr"):
        pre = "is_ok=%d err=%d " % (0 if case["fail"] else 1, 7 if case["fail"] else 0)
    if m[0] == "b":
        return pre + "len=%d null=0 bytes=%s" % (len(data), hexs(data))
    cap = case["p1"] - 1
    out, failed = b"", 0
    for c in chunks:
        if failed:
            continue
        if len(out) + len(c) > cap:
            failed = 1
            continue
        out += c
    # the flush after the call NUL-terminates at len (inside the caller's buffer); the bytes before it are the written text
    nul_at = out.find(b"\0") if b"\0" in out else len(out)
    return pre + "len=%d failed=%d nul_at=%d bytes=%s" % (len(out), failed, nul_at, hexs(out))


def line_of(case):
    chunks = [c.encode("utf-8") for c in case["chunks"]]
    return "%s %s %s %d %d" % (case["mode"], hexs(b"".join(chunks)), ",".join(str(len(c)) for c in chunks) or "-", case["p1"], 1 if case["fail"] else 0)


CHUNK = st.one_of(
    st.text(alphabet="abcXYZ019 _-", max_size=9),
    st.text(alphabet="aé€😀ß漢", max_size=6),
    st.just(""),
    st.text(alphabet="qrstuv", min_size=10, max_size=40),
    st.integers(100, 700).map(lambda n: "L" * n),
)


@st.composite
def one_case(draw):
    chunks = draw(st.lists(CHUNK, min_size=0, max_size=7))
    total = sum(len(c.encode("utf-8")) for c in chunks)
    mode = draw(st.sampled_from(["s", "s", "t", "b", "br", "f", "f", "fr"]))
    fail = draw(st.booleans()) if mode in ("t", "br", "fr") else False
    if mode[0] == "b":
        p1 = draw(st.one_of(st.integers(0, 40), st.just(total), st.just(total + 1)))
    elif mode[0] == "f":
        # buffer sizes around the total (exact fit = total + 1 with the terminator) and around the chunk boundaries
        marks = [1, total, total + 1, total + 2] + [sum(len(c.encode("utf-8")) for c in chunks[:i]) + 1 for i in range(len(chunks) + 1)]
        p1 = max(1, draw(st.one_of(st.sampled_from(marks), st.integers(1, total + 4))))
    else:
        p1 = 0
    return {"chunks": chunks, "mode": mode, "p1": p1, "fail": fail}


def setup(art, work):
    entry = os.path.join(work, "lib.rs")
    open(entry, "w").write(BRIDGE)
    lib = os.path.join(work, "libdvbridge.a")
    ok, err = compilers.rustc(art, entry, lib, crate_type="staticlib", emit=None)
    if not ok:
        raise build.Inconclusive("C12 e2e bridge does not compile: " + err[-800:])
    exes = {}
    for b, src, comp, flags, name in (("c", C_DRIVER, "gcc", ["-std=c11"], "driver.c"), ("cpp", CPP_DRIVER, "g++", ["-std=c++17"], "driver.cpp")):
        r = tool.run_backend(art, b, entry, os.path.join(work, b))
        if not r.ok:
            raise build.Inconclusive("C12 e2e: %s backend rejected the bridge: %s" % (b, r.stderr[-400:]))
        f = os.path.join(work, name)
        open(f, "w").write(src)
        exe = os.path.join(work, "drv-" + b)
        p = subprocess.run([comp] + flags + ["-O1", "-g", "-w", "-fsanitize=address,undefined", "-fno-sanitize-recover=undefined", "-I", r.outdir, f, lib, "-lpthread", "-ldl", "-lm", "-o", exe],
                           stdout=subprocess.PIPE, stderr=subprocess.PIPE, text=True)
        if p.returncode != 0:
            # a generated header that does not compile is C09's subject; here it means this leg cannot run
            return None, "%s driver does not build against the generated %s API:\n%s" % (comp, b, p.stderr[-1500:])
        exes[b] = exe
    return exes, None


def run_cases(exes, work, cases):
    """returns list of (case, expected, got) mismatches"""
    bad = []
    env = dict(os.environ)
    env["ASAN_OPTIONS"] = "detect_leaks=1:abort_on_error=0"
    for b, modes in (("c", ("b", "br", "f", "fr")), ("cpp", ("s", "t"))):
        sel = [c for c in cases if c["mode"] in modes]
        if not sel:
            continue
        fn = os.path.join(work, "cases-%s.txt" % b)
        open(fn, "w").write("\n".join(line_of(c) for c in sel) + "\n")
        try:
            q = subprocess.run([exes[b], fn], stdout=subprocess.PIPE, stderr=subprocess.PIPE, text=True, timeout=120, env=env, errors="replace")
        except subprocess.TimeoutExpired:
            raise build.Inconclusive("C12 e2e driver timed out")
        lines = q.stdout.strip().split("\n") if q.stdout.strip() else []
        for i, c in enumerate(sel):
            exp = expected(c)
            got = lines[i] if i < len(lines) else "<no output: exit %d, %s>" % (q.returncode, (q.stderr or "")[-600:].replace("\n", " | "))
            if got != exp:
                bad.append((c, exp, got))
                break
        else:
            if q.returncode != 0:
                bad.append((sel[-1], "exit 0", "exit %d: %s" % (q.returncode, (q.stderr or "")[-600:].replace("\n", " | "))))
    return bad


def nontrivial(c):
    chunks = [x for x in c["chunks"] if x]
    if c["mode"][0] == "f":
        total = sum(len(x.encode("utf-8")) for x in c["chunks"])
        return len(chunks) >= 2 and c["p1"] - 1 <= total     # exact fit or overflow with several chunks
    return len(chunks) >= 2


def worker(widx, seed, params):
    art = build.ensure_repo_artifacts()
    work = build.workdir("c12-e2e-w%d" % widx)
    acc = pbt.Acc("C12", max_violations=4)
    exes, err = setup(art, work)
    if exes is None:
        acc.case(["setup"], False, ["e2e:driver-build-failed"])
        acc.violation("end-to-end leg: " + err, {"kind": "e2e-setup"}, signature="e2e|driver-build")
        build.rm_workdir(work)
        return acc.result()

    def body(cases):
        if acc.full():
            return
        for c in cases:
            acc.case(c, nontrivial(c), ["e2e:" + {"s": "cpp-string", "t": "cpp-result", "b": "c-buffer", "br": "c-buffer-result", "f": "c-fixed", "fr": "c-fixed-result"}[c["mode"]]],
                     sample={"leg": "e2e", "case": {k: (v if k != "chunks" else [x[:20] for x in v]) for k, v in c.items()}})
        for c, exp, got in run_cases(exes, work, cases):
            # confirm on the single case (fresh process) before reporting
            again = run_cases(exes, work, [c])
            if not again:
                continue
            acc.violation("end-to-end (%s): chunks %r written through a %s came back as\n  %s\nexpected\n  %s" % (
                c["mode"], [x if len(x) < 30 else x[:10] + "..(%d)" % len(x) for x in c["chunks"]],
                {"s": "C++ std::string writer", "t": "C++ std::string writer (Result)", "b": "Rust-owned buffer writer (C API)", "br": "Rust-owned buffer writer (C API, Result)",
                 "f": "fixed %d-byte caller buffer (C API)" % c["p1"], "fr": "fixed %d-byte caller buffer (C API, Result)" % c["p1"]}[c["mode"]], again[0][2], exp),
                {"kind": "e2e", "case": c}, signature="e2e|%s|%s" % (c["mode"], "short" if len(again[0][2]) < len(exp) else "diff"))

    pbt.explore(st.lists(one_case(), min_size=8, max_size=24), body, params["n"], seed)
    build.rm_workdir(work)
    return acc.result()


def replay_case(case):
    art = build.ensure_repo_artifacts()
    work = build.workdir("c12-e2e-replay")
    exes, err = setup(art, work)
    if exes is None:
        build.rm_workdir(work)
        return err
    bad = run_cases(exes, work, [case])
    build.rm_workdir(work)
    if bad:
        return "end-to-end: got %s, expected %s" % (bad[0][2], bad[0][1])
    return None
