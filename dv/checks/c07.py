"""C07 — Dart and Kotlin native declarations match each function's and struct's C ABI (static translation validation)."""
import json, os
from hypothesis import strategies as st
from .. import build, pbt, tool, findings, reduce as red
from ..gen import ir, strategies as S
from ..models import abi, naming
from ..parsers import dartkt
from .c15 import STEER, CONFIGS, kotlin_error_attrs

RULE = ("Hypothesis-generated programs within the Dart / Kotlin feature profiles (all primitive types, nested structs, optionals, results, slices, write-out "
        "methods, by-value struct/enum self). The generated @ffi.Native declarations and ffi.Struct/Union classes (Dart) and JNA Library interface functions and "
        "Structure/Union classes with getFieldOrder() (Kotlin) are parsed and resolved recursively into an ABI algebra, then compared with a reference model of "
        "the C ABI computed from the program: parameter count and order, scalar width / signedness / float kind, pointer vs by-value, result/option/slice "
        "record shapes, struct field order and types. A case = one exported function or struct mirror. Non-trivial: function with >= 3 parameters of different classes, "
        "a Result with two payload arms, or a struct with >= 3 distinct scalar kinds or a nested struct. Distinct = distinct (declaration shape, backend).")
ASSUME = [
    "no Dart or Kotlin toolchain in the sandbox: the check validates the generated declarations as text; it does not execute them",
    "Kotlin callback interfaces (Runner_*.invoke) are compared with the C function pointer's signature on a 64-bit target (isize/usize may be declared Long/ULong there)",
    "the reference ABI model is the one the C01 end-to-end check validates against the compiled proc-macro output on the same generator",
    "accepted scalar spellings are fixed in advance: dart:ffi Int8..Uint64/Size/IntPtr/Float/Double/Bool/Pointer; JNA Byte/Short/Int/Long/Float/Double, FFIUintN, FFISizet/FFIIsizet, Pointer, Boolean (signatures) or Byte (fields, returns) for bool, Int for DiplomatChar",
]


@st.composite
def cases(draw):
    b = draw(st.sampled_from(["dart", "kotlin"]))
    over = dict(modules=1, max_types=7, max_methods=4, max_params=5)
    over.update(STEER.get(b, {}))
    p = S.profile_for([b], **over)
    prog = draw(S.programs(p))
    if b == "kotlin":
        kotlin_error_attrs(prog)
    if b == "dart" and draw(st.integers(0, 2)) == 0:
        prog["_steer"] = {"no_fallible_indexer": False, "no_self_ctor": False}
        S.add_special_methods(draw, prog)       # comparators (cmp::Ordering crosses as i8), accessors, constructors, indexers, iterators
    if b == "kotlin" and draw(st.integers(0, 2)) == 0:
        S.add_trait(draw, prog)       # (a method disabled for kotlin loses its vtable slot: known finding, probed in run_probes)
    # a third of the programs rename some types for this backend and carry abi_renames: the native mirrors and every declaration
    # naming them must still resolve (under either the renamed or the Rust name, but consistently)
    if draw(st.integers(0, 2)) == 0:
        draw(S.decorate(prog, abi=True, rename=False, disable=False, density=5))
        for _, it in ir.all_items(prog):
            # (kotlin applies a struct rename at use sites only: a recorded finding, probed separately)
            if it["kind"] in ("struct", "enum") and b == "dart" and draw(st.integers(0, 2)) == 0:
                it["renamed"] = "Renamed" + it["name"]
                it["attrs"].append('#[diplomat::attr(%s, rename = "%s")]' % (draw(st.sampled_from([b, "*"])), it["renamed"]))
    return b, prog


def classes(a):
    a = abi.normalize(a)
    if a[0] in ("rec", "union"):
        return {a[0]}
    if a[0] in ("f32", "f64"):
        return {"float"}
    if a[0] == "ptr":
        return {"ptr"}
    return {"int"}


def scalar_kinds(a, out):
    a = abi.normalize(a)
    if a[0] in ("rec", "union"):
        for f in a[1]:
            scalar_kinds(f, out)
    else:
        out.add(a[0])
    return out


def check_program(art, work, b, prog):
    """returns (cases [(key, nontrivial, label)], failures [(sig, message)], src) or None if not accepted"""
    src = ir.render_program(prog)
    entry = os.path.join(work, "lib.rs")
    open(entry, "w").write(src)
    r = tool.run_backend(art, b, entry, os.path.join(work, "out"), config=CONFIGS[b][0])
    if not r.ok:
        return None, r
    try:
        parsed = dartkt.Dart(r.outdir) if b == "dart" else dartkt.Kotlin(r.outdir)
    except dartkt.ParseError as e:
        return ([], [("parse", "cannot parse generated %s: %s" % (b, e))], src), r
    cases_, fails = [], []
    # the runtime's own exported functions the Dart glue declares: diplomat_alloc(usize, usize) -> *mut u8, diplomat_free(ptr, usize, usize)
    if b == "dart":
        for sym, (wps, wret) in (("diplomat_alloc", ([("usize",), ("usize",)], ("ptr",))), ("diplomat_free", ([("ptr",), ("usize",), ("usize",)], ("void",)))):
            try:
                sig = parsed.signature(sym)
            except dartkt.ParseError as e:
                fails.append(("sig-parse", "%s: declaration of %s: %s" % (b, sym, e)))
                continue
            if sig is None:
                continue
            cases_.append(([b, "runtime-fn", sym], False, "runtime-function"))
            gps, gret = sig
            if len(gps) != len(wps) or not all(abi.compatible(w, g, b) for w, g in zip(wps, gps)) or not abi.compatible(wret, gret, b):
                fails.append(("runtime-fn", "%s: %s is declared (%s) -> %s, the runtime exports (%s) -> %s" % (
                    b, sym, ", ".join(abi.show(abi.normalize(x)) for x in gps), abi.show(abi.normalize(gret)),
                    ", ".join(abi.show(abi.normalize(x)) for x in wps), abi.show(abi.normalize(wret)))))
    for mod in prog["modules"]:
        for it in mod["items"]:
            if it["kind"] == "struct" and it["fields"]:
                want = ("rec", [abi.abi_type(prog, f[1]) for f in it["fields"]])
                try:
                    got = (parsed.struct(it["renamed"]) if it.get("renamed") else None) or parsed.struct(it["name"])
                except dartkt.ParseError as e:
                    fails.append(("struct-parse", "%s: native mirror of struct %s: %s" % (b, it["name"], e)))
                    continue
                kinds = scalar_kinds(want, set())
                nt = len(kinds) >= 3 or any(abi.normalize(f)[0] == "rec" for f in want[1])
                cases_.append(([b, "struct", abi.show(abi.normalize(want))], nt, "struct"))
                if got is None:
                    fails.append(("struct-missing", "%s: no native mirror found for struct %s" % (b, it["name"])))
                elif not abi.compatible(want, got, b):
                    fails.append(("struct-layout", "%s: native mirror of struct %s is %s but the repr(C) struct is %s" % (b, it["name"], abi.show(abi.normalize(got)), abi.show(abi.normalize(want)))))
            for impl in it.get("impls", []):
                for m in impl["methods"]:
                    sym = naming.method_symbol(mod, it, impl, m)
                    ps, ret = abi.method_abi(prog, it, m)
                    try:
                        sig = parsed.signature(sym)
                    except dartkt.ParseError as e:
                        fails.append(("sig-parse", "%s: declaration of %s: %s" % (b, sym, e)))
                        continue
                    cl = set()
                    for p_ in ps:
                        cl |= classes(p_)
                    nt = (len(ps) >= 3 and len(cl) >= 3) or (m["ret"] and m["ret"][0] == "result" and m["ret"][1][0] != "unit" and m["ret"][2][0] != "unit")
                    cases_.append(([b, "fn", [abi.show(abi.normalize(x)) for x in ps], abi.show(abi.normalize(ret))], bool(nt), "function"))
                    if sig is None:
                        fails.append(("fn-missing", "%s: no native declaration found for %s" % (b, sym)))
                        continue
                    gps, gret = sig
                    if len(gps) != len(ps):
                        fails.append(("fn-arity", "%s: %s is declared with %d parameters, the C ABI has %d (%s vs %s)" % (b, sym, len(gps), len(ps), [abi.show(abi.normalize(x)) for x in gps], [abi.show(abi.normalize(x)) for x in ps])))
                        continue
                    for i, (w, g) in enumerate(zip(ps, gps)):
                        if not abi.compatible(w, g, b):
                            fails.append(("fn-param", "%s: parameter %d of %s is declared %s, the C ABI has %s" % (b, i, sym, abi.show(abi.normalize(g)), abi.show(abi.normalize(w)))))
                            break
                    else:
                        if not abi.compatible(ret, gret, b):
                            fails.append(("fn-return", "%s: %s returns %s in the native declaration, the C ABI returns %s" % (b, sym, abi.show(abi.normalize(gret)), abi.show(abi.normalize(ret)))))
                    if b == "kotlin":
                        for q in m["params"]:
                            if q[1][0] == "raw" and q[1][1].startswith("impl "):
                                tr = next(x for x in prog["traits"] if x["name"] == q[1][1][5:])
                                # the vtable mirror: destructor, size, alignment, then one function pointer per trait method in
                                # declaration order -- every method, the Rust vtable has no notion of a backend-disabled one
                                vt = "DiplomatTrait_%s_VTable_Native" % tr["name"]
                                want_order = ["destructor", "size", "alignment"] + ["run_%s_callback" % tm["name"] for tm in tr["methods"]]
                                got_order = parsed.field_orders.get(vt)
                                cases_.append(([b, "trait-vtable", want_order], any(tm.get("disabled_for") for tm in tr["methods"]), "trait-vtable"))
                                if got_order is None:
                                    fails.append(("trait-vtable", "%s: no vtable structure %s found" % (b, vt)))
                                elif got_order != want_order:
                                    fails.append(("trait-vtable", "%s: %s lists the fields %s, the Rust vtable is laid out as %s" % (b, vt, got_order, want_order)))
                                for tm in tr["methods"]:
                                    if "kotlin" in (tm.get("disabled_for") or []):
                                        continue      # (its interface may be absent; the slot itself is checked above)
                                    rn = "Runner_DiplomatTraitMethod_%s_%s" % (tr["name"], tm["name"])
                                    want_ps = [("ptr",)] + [abi.abi_type(prog, a) for _, a in tm["params"]]
                                    want_ret = abi.abi_type(prog, tm["ret"]) if tm["ret"] else ("void",)
                                    cases_.append(([b, "trait-method", [abi.show(abi.normalize(x)) for x in want_ps], abi.show(abi.normalize(want_ret))], len(want_ps) >= 3, "trait-method"))
                                    try:
                                        got = parsed.runner(rn)
                                    except dartkt.ParseError as e:
                                        fails.append(("trait-parse", "%s: trait method interface %s: %s" % (b, rn, e)))
                                        continue
                                    if got is None:
                                        fails.append(("trait-missing", "%s: no callback interface %s found" % (b, rn)))
                                        continue
                                    gps, gret = got
                                    if len(gps) != len(want_ps) or not all(abi.compatible(w, g, "kotlin-callback") for w, g in zip(want_ps, gps)) or not abi.compatible(want_ret, gret, "kotlin-callback"):
                                        fails.append(("trait-signature", "%s: %s.invoke is declared (%s) -> %s, the vtable entry is (%s) -> %s" % (
                                            b, rn, ", ".join(abi.show(abi.normalize(x)) for x in gps), abi.show(abi.normalize(gret)),
                                            ", ".join(abi.show(abi.normalize(x)) for x in want_ps), abi.show(abi.normalize(want_ret)))))
                        # callback parameters: the JNA Callback interface's `invoke` is the C function pointer's signature
                        for q in m["params"]:
                            if q[1][0] != "cb":
                                continue
                            rn = "Runner_DiplomatCallback_%s_%s_diplomatCallback_%s" % (it["name"], m["name"], q[0])
                            want_ps = [("ptr",)] + [abi.abi_type(prog, a) for a in q[1][1]]
                            want_ret = abi.abi_type(prog, q[1][2])
                            cases_.append(([b, "callback", [abi.show(abi.normalize(x)) for x in want_ps], abi.show(abi.normalize(want_ret))], len(want_ps) >= 3, "callback"))
                            try:
                                got = parsed.runner(rn)
                            except dartkt.ParseError as e:
                                fails.append(("cb-parse", "%s: callback interface %s: %s" % (b, rn, e)))
                                continue
                            if got is None:
                                fails.append(("cb-missing", "%s: no callback interface %s found" % (b, rn)))
                                continue
                            gps, gret = got
                            if len(gps) != len(want_ps) or not all(abi.compatible(w, g, "kotlin-callback") for w, g in zip(want_ps, gps)) or not abi.compatible(want_ret, gret, "kotlin-callback"):
                                fails.append(("cb-signature", "%s: %s.invoke is declared (%s) -> %s, the C function pointer is (%s) -> %s" % (
                                    b, rn, ", ".join(abi.show(abi.normalize(x)) for x in gps), abi.show(abi.normalize(gret)),
                                    ", ".join(abi.show(abi.normalize(x)) for x in want_ps), abi.show(abi.normalize(want_ret)))))
    return (cases_, fails, src), r


def worker(widx, seed, params):
    art = build.ensure_repo_artifacts()
    work = build.workdir("c07-w%d" % widx)
    acc = pbt.Acc("C07", max_violations=6)

    def body(case):
        if acc.full():
            return
        b, prog = case
        res, r = check_program(art, work, b, prog)
        if res is None:
            acc.labels["%s:%s" % (b, r.classify())] += 1
            return
        cases_, fails, src = res
        acc.labels["%s:ok" % b] += 1
        for key, nt, label in cases_:
            acc.case(key, nt, ["%s:%s" % (b, label)], sample={"backend": b, "declaration": key})
        for sig, msg in fails:
            if any(v["signature"] == b + "|" + sig for v in acc.violations):
                continue

            def again(p2, sig=sig):
                r2, _ = check_program(art, work, b, p2)
                return r2 is not None and any(s2 == sig for s2, _ in r2[1])
            small, _ = red.reduce(prog, again, budget=80)
            r2, _ = check_program(art, work, b, small)
            m2 = next((m for s2, m in (r2[1] if r2 else []) if s2 == sig), msg)
            acc.violation("%s\n--- lib.rs ---\n%s" % (m2, ir.render_program(small)), {"backend": b, "program": small}, signature=b + "|" + sig)

    pbt.explore(cases(), body, params["n"], seed)
    build.rm_workdir(work)
    return acc.result()


def run_probes(art):
    """the listed C07 findings on their specific inputs"""
    seen = []
    work = build.workdir("c07-probes")
    for f in findings.known_for("C07"):
        pr = f.get("probe")
        if not pr:
            continue
        entry = os.path.join(work, "lib.rs")
        open(entry, "w").write(pr["lib_rs"])
        r = tool.run_backend(art, pr["backend"], entry, os.path.join(work, "out"), config=CONFIGS[pr["backend"]][0])
        if not r.ok:
            continue
        if pr.get("vtable"):
            got = dartkt.Kotlin(r.outdir).field_orders.get(pr["vtable"])
            if got is not None and got == pr["observed_order"] and got != pr["rust_order"]:
                seen.append(f["what"])
            continue
        try:
            parsed = dartkt.Kotlin(r.outdir) if pr["backend"] == "kotlin" else dartkt.Dart(r.outdir)
            parsed.signature(pr["symbol"])
        except dartkt.ParseError as e:
            if pr["expect"] in str(e):
                seen.append(f["what"])
    build.rm_workdir(work)
    return seen


def run(ctx):
    n = 150 if ctx.quick else 3000
    known_seen = run_probes(build.ensure_repo_artifacts())
    m = pbt.run_workers("checks.c07", "worker", 14, ctx.seed, {"n": n})
    cov = {"programs": sum(v for k, v in m["labels"].items() if k.endswith(":ok")), "disagreements_checked": m["evaluations"],
           "evaluations": m["evaluations"], "distinct_nontrivial": m["distinct_nontrivial"], "rule": RULE, "samples": m["samples"], "labels": m["labels"]}
    return {"coverage": cov, "assumptions": ASSUME, "violations": m["violations"], "known_seen": known_seen}


def replay(ctx):
    art = build.ensure_repo_artifacts()
    c = json.load(open(ctx.replay))["case"]
    work = build.workdir("c07-replay")
    res, r = check_program(art, work, c["backend"], c["program"])
    build.rm_workdir(work)
    v = []
    if res:
        for sig, msg in res[1]:
            print(msg)
            v.append({"replay": ctx.replay, "message": msg})
    return {"violations": v}
