"""C14 — output is a deterministic, order-independent, local function of the bridge (metamorphic relations)."""
import copy, json, os
from hypothesis import strategies as st
from .. import build, pbt, tool, reduce as red, findings
from ..gen import ir, strategies as S
from .c15 import STEER, CONFIGS, kotlin_error_attrs

RULE = ("Hypothesis-generated programs (1-3 bridge modules) per backend; four metamorphic variants each, compared byte-wise over whole "
        "output directories: R1 same input twice in fresh processes; R2 random permutation of module order and of item order inside modules "
        "(impls stay after their type, impls of one type keep their relative order); R3 insertion of a type nothing references (R3d: the same type disabled for every backend: no file at all may change) "
        "(every pre-existing per-type file must be unchanged, aggregate index files excluded, the new type's files must exist); "
        "R4 insertion of non-bridge items (functions, same-named types, modules, consts, macros). A case = one (program, backend, relation). "
        "Non-trivial: program with >= 4 types and, for R2, a non-identity permutation. Distinct = distinct (program, backend, relation, variant).")
ASSUME = [
    "hash-seed dependence is probed by fresh processes (Rust's RandomState reseeds per process), 2 runs in quick tier",
    "aggregate files allowed to change under R3: js/demo_gen index.mjs & index.d.ts, dart lib.g.dart, nanobind <lib>_ext.cpp, kotlin Lib.kt; every other file must be identical",
    "programs avoid the shapes of the C15 known findings (a crashing backend has no output to compare)",
]

AGGREGATES = {
    "js": {"index.mjs", "index.d.ts"},
    "demo_gen": {"index.mjs", "index.d.ts"},
    "dart": {"lib.g.dart"},
    "nanobind": {"somelib_ext.cpp"},
    "kotlin": set(),
    "c": set(), "cpp": set(),
}

NON_BRIDGE_SNIPPETS = [
    "pub fn dv_free_function(x: u32) -> u32 { x + 1 }",
    "const DV_CONST: u32 = 42;",
    "static DV_STATIC: &str = \"hello\";",
    "macro_rules! dv_macro { ($x:expr) => { $x + 1 }; }",
    "pub struct {T} {{ pub totally_different: (u8, String) }}\nimpl {T} {{ pub fn dv_other(&self) -> Box<{T}> {{ todo!() }} }}",
    "pub mod dv_other_mod {{\n    pub struct {T}(pub u64);\n    pub enum {T}Kind {{ A, B(u8) }}\n    impl {T} {{ pub fn create() -> Option<{T}> {{ None }} }}\n}}",
    "pub trait DvTrait { fn go(&self); }",
    "type DvAlias = Vec<String>;",
    "#[derive(Debug)]\npub enum DvTopEnum { X = 7, Y }",
    "pub mod ffi_not_a_bridge {\n    pub struct Inner { pub a: u8 }\n    impl Inner { pub fn new_inner() -> Inner { Inner { a: 1 } } }\n}",
    # modules carrying other crates' look-alike attributes are not Diplomat bridges
    "#[cxx::bridge]\npub mod dv_cxx_bridge {\n    pub struct DvExtent { pub w: u32, pub h: u32 }\n    pub enum DvMode { A, B }\n}",
    "#[bridge]\npub mod dv_bare_bridge {{\n    pub struct {T} {{ pub other: u64 }}\n}}",
    "#[cfg(feature = \"bridge\")]\npub mod dv_cfg_mod {\n    pub enum DvCfgEnum { P, Q }\n}",
    # traits inside ordinary modules (primitive-only signatures, and ones mentioning plain Rust types)
    "pub mod dv_plain_traits {\n    pub trait DvVisitor { fn visit(&self, depth: u32) -> bool; fn leave(&self); }\n}",
    "pub mod dv_helpers {\n    pub struct DvPrinter(pub String);\n    pub trait DvSink { fn accept(&mut self, p: &DvPrinter, n: usize) -> Option<String>; }\n}",
]


def valid_order(mod, perm):
    """repair a permutation of mod['order'] so impls follow their decl and same-type impls keep their order"""
    emitted, pending, out = set(), {}, []
    impl_queue = {}
    for e in mod["order"]:
        if e[0] == "impl":
            impl_queue.setdefault(e[1], []).append(e)
    taken = {}
    for e in perm:
        if e[0] == "decl":
            out.append(e)
            emitted.add(e[1])
            for _ in range(pending.pop(e[1], 0)):
                k = taken.get(e[1], 0)
                out.append(impl_queue[e[1]][k])
                taken[e[1]] = k + 1
        else:
            if e[1] in emitted:
                k = taken.get(e[1], 0)
                out.append(impl_queue[e[1]][k])
                taken[e[1]] = k + 1
            else:
                pending[e[1]] = pending.get(e[1], 0) + 1
    return out


@st.composite
def cases(draw):
    b = draw(st.sampled_from(tool.BACKENDS))
    over = dict(modules=draw(st.sampled_from([1, 2, 3])), max_types=9)
    over.update(STEER.get(b, {}))
    p = S.profile_for([b], **over)
    prog = draw(S.programs(p))
    if b == "kotlin":
        kotlin_error_attrs(prog)
    if b in ("kotlin", "c") and draw(st.integers(0, 2)) == 0:
        S.add_trait(draw, prog)          # bridged traits get files of their own in the backends that accept them
    if draw(st.booleans()):
        draw(S.decorate(prog))
    if draw(st.integers(0, 2)) == 0:
        # most types get one of four namespaces: headers then forward-declare types of several namespaces (hash-ordered tables show up there)
        for _, it in ir.all_items(prog):
            if draw(st.integers(0, 3)) != 0 and not any("namespace" in a for a in it["attrs"]):
                it["attrs"].append('#[diplomat::attr(auto, namespace = "%s")]' % draw(st.sampled_from(["ns1", "ns2", "ns1::inner", "outer::mid::deep"])))
    # R2: permutation
    perm = copy.deepcopy(prog)
    mods = list(range(len(perm["modules"])))
    perm["top_order"] = [["mod", i] for i in draw(st.permutations(mods))]
    for mod in perm["modules"]:
        mod["order"] = valid_order(mod, draw(st.permutations(mod["order"])))
    # R3: unrelated type
    used = {it["name"] for _, it in ir.all_items(prog)}
    free = [n for n in S.TYPE_NAMES if n not in used]
    uname = draw(st.sampled_from(free))
    ukind = draw(st.sampled_from(["opaque", "struct", "enum"]))
    ins = copy.deepcopy(prog)
    mi = draw(st.integers(0, len(ins["modules"]) - 1))
    if ukind == "opaque":
        it = {"kind": "opaque", "name": uname, "attrs": [], "lifetimes": [], "impls": [{"attrs": [], "methods": [
            {"name": "dv_make", "attrs": [], "lifetimes": [], "self": None, "params": [["seed", ["prim", "u8"], []]], "ret": ["box", uname, []]},
            {"name": "dv_peek", "attrs": [], "lifetimes": [], "self": ["ref", None, False], "params": [], "ret": ["prim", "i32"]}]}]}
    elif ukind == "struct":
        it = {"kind": "struct", "name": uname, "attrs": [], "out": False, "lifetimes": [], "fields": [["dv_a", ["prim", "u16"], []], ["dv_b", ["prim", "f64"], []]],
              "impls": [{"attrs": [], "methods": [{"name": "dv_sum", "attrs": [], "lifetimes": [], "self": ["val"], "params": [], "ret": ["prim", "f64"]}]}]}
    else:
        it = {"kind": "enum", "name": uname, "attrs": [], "variants": [["DvA", None, []], ["DvB", 5, []]], "impls": []}
    # ... or take a callback (backends generate per-callback helpers next to the type that uses them)
    if ukind == "struct" and p.get("callbacks") and draw(st.booleans()):
        it["impls"][0]["methods"].append({"name": "dv_each", "attrs": [], "lifetimes": [], "self": ["val"], "params": [["dv_f", ["cb", [["prim", "i32"]], ["prim", "i32"], False], []]], "ret": ["prim", "u8"]})
    # the added type may itself mention existing types of its module (outgoing references only: still nothing refers to it)
    if ukind in ("opaque", "struct") and draw(st.booleans()):
        cands = []
        for other in ins["modules"][mi]["items"]:
            if other.get("lifetimes") or other.get("out"):
                continue
            if other["kind"] == "enum":
                cands.append(["enum", other["name"]])
            elif other["kind"] == "struct" and other.get("fields"):
                cands.append(["struct", other["name"], []])
            elif other["kind"] == "opaque":
                cands.append(["ref", None, False, other["name"], []])
        if cands:
            picked = draw(st.lists(st.sampled_from(cands), min_size=1, max_size=2))
            it["impls"][0]["methods"].append({"name": "dv_uses", "attrs": [], "lifetimes": [], "self": None,
                                              "params": [["dv_x%d" % i, t, []] for i, t in enumerate(picked)], "ret": ["prim", "u8"]})
    pos = draw(st.integers(0, len(ins["modules"][mi]["items"])))
    ins["modules"][mi]["items"].insert(pos, it)
    for mod in ins["modules"]:
        ir.default_order(mod)
    # R4: non-bridge items
    nb = copy.deepcopy(prog)
    names = sorted(used)
    k = draw(st.integers(1, 4))
    snippets = []
    for _ in range(k):
        sn = draw(st.sampled_from(NON_BRIDGE_SNIPPETS))
        t = draw(st.sampled_from(names))
        snippets.append(sn.format(T=t) if "{T}" in sn else sn.replace("{{", "{").replace("}}", "}"))
    # de-duplicate snippets that would define the same top-level name twice
    snippets = list(dict.fromkeys(snippets))
    seen_defs, uniq = set(), []
    for sn in snippets:
        head = sn.split("{")[0].split("(")[0].split("=")[0].strip()
        if head in seen_defs:
            continue
        seen_defs.add(head)
        uniq.append(sn)
    nb["extra_top"] = uniq
    order = [["mod", i] for i in range(len(nb["modules"]))] + [["extra", i] for i in range(len(uniq))]
    nb["top_order"] = draw(st.permutations(order))
    # R3b: the unrelated type has the Rust name of an existing type but lives in a bridge module of its own (other namespace,
    # other ABI names, renamed where the backend has no namespaces)
    twin = None
    opaques = [it for _, it in ir.all_items(prog) if it["kind"] == "opaque" and not it.get("lifetimes")]
    if opaques:
        o = draw(st.sampled_from(opaques))
        twin = copy.deepcopy(prog)
        t_it = {"kind": "opaque", "name": o["name"], "attrs": ['#[diplomat::attr(not(supports = namespacing), rename = "DvTwin%s")]' % o["name"]], "lifetimes": [], "impls": [{"attrs": [], "methods": [
            {"name": "dv_twin_make", "attrs": [], "lifetimes": [], "self": None, "params": [["seed", ["prim", "u8"], []]], "ret": ["box", o["name"], []]},
            {"name": "dv_twin_peek", "attrs": [], "lifetimes": [], "self": ["ref", None, False], "params": [], "ret": ["prim", "i32"]}]}]}
        # (modules are kept in a map ordered by name: the twin module sorts before or after the existing ones)
        tm = {"name": draw(st.sampled_from(["aa_dv_twin_mod", "zz_dv_twin_mod"])), "attrs": ['#[diplomat::abi_rename = "dvtwin_{0}"]', '#[diplomat::attr(auto, namespace = "dvtwin")]'], "uses": [], "items": [t_it]}
        ir.default_order(tm)
        twin["modules"].insert(draw(st.integers(0, len(twin["modules"]))), tm)
    # R3c: two structurally identical, method-less structs of the same name in two bridge modules (one per namespace) are two
    # types: adding the second one must not change what the users of the first one refer to
    plain = {"kind": "struct", "name": "DvPlain", "attrs": [], "out": False, "lifetimes": [], "fields": [["dv_a", ["prim", "u8"], []], ["dv_b", ["prim", "i32"], []]], "impls": []}
    user = {"kind": "opaque", "name": "DvPlainUser", "attrs": [], "lifetimes": [], "impls": [{"attrs": [], "methods": [
        {"name": "dv_take", "attrs": [], "lifetimes": [], "self": ["ref", None, False], "params": [["o", ["struct", "DvPlain", []], []]], "ret": ["prim", "u8"]},
        {"name": "dv_give", "attrs": [], "lifetimes": [], "self": ["ref", None, False], "params": [], "ret": ["struct", "DvPlain", []]}]}]}
    pbase = copy.deepcopy(prog)
    pbase["modules"][0]["items"] += [copy.deepcopy(plain), user]
    ir.default_order(pbase["modules"][0])
    ptwin = copy.deepcopy(pbase)
    tm2 = {"name": draw(st.sampled_from(["aa_dv_plain_mod", "zz_dv_plain_mod"])), "attrs": ['#[diplomat::attr(auto, namespace = "dvplain")]'], "uses": [], "items": [copy.deepcopy(plain)]}
    ir.default_order(tm2)
    ptwin["modules"].insert(draw(st.integers(0, len(ptwin["modules"]))), tm2)
    prog["_r3c"] = [pbase, ptwin]
    # R3k (kotlin, c): a struct-only bridge with a trait; the added unreferenced struct takes callbacks and is the last type the
    # backend generates, so per-type state it leaves behind must not reach the trait's file
    if b in ("kotlin", "c"):
        prims_ = ["u8", "i16", "i32", "u32", "i64", "f32", "f64", "bool"]
        kitems = []
        for i in range(draw(st.integers(1, 3))):
            kitems.append({"kind": "struct", "name": "DvK%d" % i, "attrs": [], "out": False, "lifetimes": [],
                           "fields": [["f%d" % j, ["prim", draw(st.sampled_from(prims_))], []] for j in range(draw(st.integers(1, 3)))],
                           "impls": [{"attrs": [], "methods": [{"name": "dv_sum", "attrs": [], "lifetimes": [], "self": ["val"], "params": [], "ret": ["prim", "i32"]}]}]})
        kbase = {"modules": [{"name": "ffi", "attrs": [], "uses": [], "items": kitems}], "config_attrs": [], "extra_top": []}
        ir.default_order(kbase["modules"][0])
        S.add_trait(draw, kbase)
        kplus = copy.deepcopy(kbase)
        cbm = []
        for i in range(draw(st.integers(1, 2))):
            cbm.append({"name": "dv_each%d" % i, "attrs": [], "lifetimes": [], "self": ["val"],
                        "params": [["dv_f", ["cb", [["prim", draw(st.sampled_from(prims_))] for _ in range(draw(st.integers(0, 2)))], draw(st.sampled_from([["unit"], ["prim", "i32"], ["prim", "u8"]])), False], []]], "ret": ["prim", "u8"]})
        kplus["modules"][0]["items"].append({"kind": "struct", "name": draw(st.sampled_from(["DvZzLast", "DvAaFirst"])), "attrs": [], "out": False, "lifetimes": [],
                                             "fields": [["dv_a", ["prim", "u8"], []]], "impls": [{"attrs": [], "methods": cbm}]})
        ir.default_order(kplus["modules"][0])
        prog["_r3k"] = [kbase, kplus]
    return b, prog, perm, ins, uname, nb, twin


def run_prog(art, work, backend, prog, tag, cfg):
    src = ir.render_program(prog)
    d = os.path.join(work, tag)
    os.makedirs(d, exist_ok=True)
    entry = os.path.join(d, "lib.rs")
    open(entry, "w").write(src)
    r = tool.run_backend(art, backend, entry, os.path.join(d, "out"), config=cfg)
    return src, r


def diff_files(a, b, ignore=()):
    out = []
    for k in sorted(set(a) | set(b)):
        if k in ignore:
            continue
        if a.get(k) != b.get(k):
            out.append(k + (" (missing in variant)" if k not in b else " (only in variant)" if k not in a else ""))
    return out


def relation_check(art, work, backend, cfg, prog, variant, rel, uname=None):
    """returns None if the relation holds, 'skip' if not applicable, else a message"""
    s0, r0 = run_prog(art, work, backend, prog, "base", cfg)
    if not r0.ok:
        return "skip"
    f0 = r0.files()
    s1, r1 = run_prog(art, work, backend, variant, rel, cfg)
    if not r1.ok and rel == "R3b":
        return "skip-variant"      # backends without namespaces in file names cannot hold two types of one name
    if rel == "R3b":
        f1 = r1.files()
        changed = [k for k in sorted(f0) if os.path.basename(k) not in AGGREGATES[backend] and f0[k] != f1.get(k)]
        if changed:
            return "R3b: adding an unreferenced type in a module of its own (same Rust name as an existing type) changed pre-existing files %s\n--- variant lib.rs ---\n%s" % (changed[:5], s1)
        return None
    if not r1.ok:
        return "%s: variant was not accepted although the base program was: %s\n--- base lib.rs ---\n%s\n--- variant lib.rs ---\n%s" % (rel, r1.stderr[-400:], s0, s1)
    f1 = r1.files()
    if rel == "R3":
        ignore = AGGREGATES[backend]
        changed = [k for k in sorted(f0) if os.path.basename(k) not in ignore and f0[k] != f1.get(k)]
        new_files = [k for k in f1 if k not in f0]
        if changed:
            return "R3: adding unreferenced type %s changed pre-existing files %s\n--- base lib.rs ---\n%s" % (uname, changed[:5], s0)
        if not any(uname in k for k in new_files):
            return "R3: no file was generated for the added type %s (new files: %s)" % (uname, new_files[:5])
        return None
    d = diff_files(f0, f1)
    if d:
        k = d[0].split(" ")[0]
        return "%s: output differs in %s\n--- base lib.rs ---\n%s\n--- variant lib.rs ---\n%s\n--- first differing file %s: base ---\n%s\n--- variant ---\n%s" % (
            rel, d[:6], s0, s1, k, (f0.get(k) or b"").decode(errors="replace")[:1200], (f1.get(k) or b"").decode(errors="replace")[:1200])
    return None


def worker(widx, seed, params):
    art = build.ensure_repo_artifacts()
    work = build.workdir("c14-w%d" % widx)
    acc = pbt.Acc("C14", max_violations=5)

    def body(case):
        if acc.full():
            return
        backend, prog, perm, ins, uname, nb, twin = case
        cfg = CONFIGS[backend][0]
        ntypes = sum(1 for _ in ir.all_items(prog))
        # R3d: the same unreferenced type, switched off for every backend: nothing at all may change (aggregate files included)
        insd = copy.deepcopy(ins)
        for _, it_ in ir.all_items(insd):
            if it_["name"] == uname:
                it_["attrs"] = list(it_["attrs"]) + ["#[diplomat::attr(*, disable)]"]
        r3c = prog.pop("_r3c", None)
        r3k = prog.pop("_r3k", None)
        variants = [("R1", prog), ("R2", perm), ("R3", ins), ("R3d", insd), ("R4", nb)] + ([("R3b", twin)] if twin is not None else []) + ([("R3c", r3c[1])] if r3c else []) + ([("R3k", r3k[1])] if r3k else [])
        for rel, var in variants:
            identity = rel == "R2" and ir.render_program(perm) == ir.render_program(prog)
            msg = relation_check(art, work, backend, cfg, r3c[0] if rel == "R3c" else (r3k[0] if rel == "R3k" else prog), var, "R3b" if rel in ("R3c", "R3k") else rel, uname)
            if msg and rel == "R3k" and msg not in ("skip", "skip-variant"):
                msg = "R3k (struct-only bridge with a trait; the added struct takes callbacks): " + msg
            if msg and rel == "R3c" and msg not in ("skip", "skip-variant"):
                msg = "R3c (an identical method-less struct of the same name in a second namespace): " + msg
            if msg == "skip":
                acc.case([ir.dumps(prog), backend, rel], False, ["%s:base-not-accepted" % backend])
                break
            if msg == "skip-variant":
                acc.labels["%s:R3b-variant-not-accepted" % backend] += 1
                continue
            labels = ["%s:%s" % (backend, rel), "modules:%d" % len(prog["modules"])]
            if identity:
                labels.append("R2:identity-permutation")
            acc.case([ir.dumps(prog), backend, rel, ir.dumps(var)], ntypes >= 4 and not identity, labels,
                     sample={"backend": backend, "relation": rel, "variant_lib_rs": ir.render_program(var)[:1200]})
            if msg:
                sig = "%s|%s" % (backend, rel)

                def fails(p2, rel=rel, var=var):
                    # reduce only for the relations whose variant can be recomputed from the base
                    if rel == "R1":
                        return relation_check(art, work, backend, cfg, p2, p2, "R1") not in (None, "skip")
                    return False
                if rel == "R1":
                    small, _ = red.reduce(prog, fails, budget=40)
                    msg = relation_check(art, work, backend, cfg, small, small, "R1") or msg
                acc.violation(msg, {"backend": backend, "config": cfg, "relation": "R3b" if rel in ("R3c", "R3k") else rel, "base": r3c[0] if rel == "R3c" else (r3k[0] if rel == "R3k" else prog), "variant": var, "uname": uname}, signature=sig)

    pbt.explore(cases(), body, params["n"], seed)
    build.rm_workdir(work)
    return acc.result()


def run(ctx):
    n = 110 if ctx.quick else 2500
    m = pbt.run_workers("checks.c14", "worker", 14, ctx.seed, {"n": n})
    cov = {"evaluations": m["evaluations"], "distinct_nontrivial": m["distinct_nontrivial"], "rule": RULE, "samples": m["samples"],
           "labels": m["labels"], "extra": m["extra"]}
    res = {"coverage": cov, "assumptions": ASSUME, "violations": m["violations"]}
    skipped = sum(v for k, v in m["labels"].items() if k.endswith("base-not-accepted"))
    if skipped > 0.5 * max(1, m["evaluations"]):
        res["health_failure"] = "more than half of the base programs were not accepted by their backend"
    return res


def replay(ctx):
    art = build.ensure_repo_artifacts()
    c = json.load(open(ctx.replay))["case"]
    work = build.workdir("c14-replay")
    msg = relation_check(art, work, c["backend"], c["config"], c["base"], c["variant"], c["relation"], c.get("uname"))
    build.rm_workdir(work)
    if msg and msg not in ("skip", "skip-variant"):
        print(msg[:3000])
        return {"violations": [{"replay": ctx.replay, "message": msg[:1500]}]}
    print("replay ok (relation holds)")
    return {"violations": []}
