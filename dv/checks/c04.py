"""C04 — borrow edges keep alive everything a returned value may borrow from."""
import json, os, re, subprocess
from hypothesis import strategies as st
from .. import build, pbt, tool, probe as probe_mod, findings

RULE = ("Hypothesis-generated method signatures over up to 4 method lifetimes (+ impl lifetimes) with arbitrary declared bounds (incl. cycles), 'static and anonymous "
        "inputs, parameters &'x self (on opaques with one or two lifetime slots) / self by value on a borrowing struct (the impl header restating Self's definition-site bounds or leaving them to rustc's inference: then the tool may reject, but must not accept with fewer edges) / &'x Op<'y> / Option<&..> / slices / strs / borrowing structs by value or optional (incl. a nested borrowing struct and a struct whose nested borrowing struct field is a DiplomatOption, present or absent at run time), returns "
        "mentioning 1-3 lifetimes (references, boxes, structs, slices, Option, Result arms); type definitions carry drawn declared and field-implied bounds. "
        "Level 1: Method::borrowing_param_visitor(..).borrow_map() via the public API must equal a reference outlives model (declared U implied bounds, reflexive-"
        "transitive closure): same key set, and per output lifetime exactly the input slots (self, opaque, slice, (struct param, definition slot)) whose lifetime must "
        "outlive it. Level 2: rustc decides 'l: 'r for every ordered pair of a sample of signatures (one probe function per pair) and must agree with the model "
        "(a disagreement is a harness error, exit 2). Level 3: the edge lists emitted by the js / dart / kotlin / nanobind backends must contain the expected inputs. "
        "A case = one (signature, output lifetime). Non-trivial: an output lifetime with a strictly longer lifetime reached only through an implied or transitive bound, "
        "and a parameter that must not be an edge. Distinct = distinct signature text.")
ASSUME = [
    "'static inputs are don't-care (never listed by the tool, never required by the model)",
    "anonymous input lifetimes are generated only where no bound can involve them",
    "in the main ('spelled') mode every bound rustc would infer from a definition is also written on the definition and on the method, so the tool's environment and rustc's coincide; "
    "the gap between the two without that spelling is the known finding listed in known_findings.json and is probed separately",
    "managed-backend edge lists are parsed from generated text (js/dart/kotlin; per output lifetime) and nb::keep_alive indices (nanobind; per argument); dart/kotlin/nanobind bindings are not executed",
    "js is also executed (node, stub wasm module) for methods returning an opaque: the private edge arrays of the returned object are read through the V8 inspector and must "
    "contain every input opaque (parameters and the opaque fields of by-value struct parameters under the relevant definition lifetime) the model requires",
]

METHOD_LTS = ["a", "b", "c", "d"]


# ---- universe -------------------------------------------------------------------------------------
@st.composite
def universe(draw):
    u = {
        "opab_bound": draw(st.booleans()),        # OpAB<'x, 'y: 'x>
        "st2_bound": draw(st.sampled_from(["none", "declared", "field"])),   # St2<'p,'q>: none | 'q: 'p declared | field &'p OpA<'q>
        "outer_spelled": True,
    }
    return u


def universe_items(u, spelled=True, with_wrap=True):
    """(diplomat source of type definitions, plain-rust source) ; also bounds per type as list of (longer_idx, shorter_idx)"""
    st2_has = u["st2_bound"] != "none"
    d = []
    d.append("    #[diplomat::opaque]\n    pub struct Op(u8);")
    d.append("    #[diplomat::opaque]\n    pub struct OpA<'x>(core::marker::PhantomData<&'x ()>);")
    d.append("    #[diplomat::opaque]\n    pub struct OpAB<'x, 'y%s>(core::marker::PhantomData<(&'x (), &'y ())>);" % (": 'x" if u["opab_bound"] else ""))
    d.append("    pub struct St1<'p> {\n        pub o: &'p Op,\n        pub s: DiplomatStrSlice<'p>,\n    }")
    st2_decl = "'p, 'q: 'p" if (u["st2_bound"] == "declared" or (u["st2_bound"] == "field" and spelled)) else "'p, 'q"
    st2_fields = "        pub f: &'p Op,\n        pub g: &'q Op,\n" + ("        pub h: &'p OpA<'q>,\n" if u["st2_bound"] == "field" else "")
    d.append("    pub struct St2<%s> {\n%s    }" % (st2_decl, st2_fields))
    outer_decl = "'m, 'n: 'm" if (st2_has and spelled) else "'m, 'n"
    d.append("    pub struct Outer<%s> {\n        pub s: St2<'m, 'n>,\n        pub t: St1<'n>,\n    }" % outer_decl)
    # an optional nested borrowing struct
    if with_wrap:       # (left out of the file kotlin reads: it has no Option support and would reject the whole bridge)
        d.append("    pub struct Wrap<'w> {\n        pub i: DiplomatOption<St1<'w>>,\n        pub k: u8,\n    }")
    return "\n".join(d)


def plain_items(u):
    st2_has = u["st2_bound"] != "none"
    p = ["use core::marker::PhantomData;", "pub struct Op(u8);", "pub struct OpA<'x>(PhantomData<&'x ()>);",
         "pub struct OpAB<'x, 'y%s>(PhantomData<(&'x (), &'y ())>);" % (": 'x" if u["opab_bound"] else ""),
         "pub struct St1<'p> { pub o: &'p Op, pub s: &'p str }",
         "pub struct St2<'p, 'q%s> { pub f: &'p Op, pub g: &'q Op%s }" % (": 'p" if u["st2_bound"] == "declared" else "", ", pub h: &'p OpA<'q>" if u["st2_bound"] == "field" else ""),
         "pub struct Outer<'m, 'n> { pub s: St2<'m, 'n>, pub t: St1<'n> }",
         "pub struct Wrap<'w> { pub i: Option<St1<'w>>, pub k: u8 }"]
    return "\n".join(p)


IMPL_LTS = {"Op": [], "OpA": ["x"], "St1": ["p"], "St2": ["p", "q"], "OpAB": ["x", "y"]}
TYPE_SLOTS = {"OpA": ["x"], "OpAB": ["x", "y"], "St1": ["p"], "St2": ["p", "q"], "Outer": ["m", "n"], "Wrap": ["w"], "Op": []}


def def_bounds(u, ty):
    """definition-site bounds of a type as (longer slot index, shorter slot index), as rustc knows them"""
    if ty == "OpAB" and u["opab_bound"]:
        return [(1, 0)]
    if ty in ("St2", "Outer") and u["st2_bound"] != "none":
        return [(1, 0)]
    return []


# ---- signatures -----------------------------------------------------------------------------------
def lt_txt(l):
    return "" if l is None else "'" + l


def ty_txt(t):
    k = t[0]
    if k == "ref" and len(t) > 4 and t[4] == "Self":
        return "&" + (lt_txt(t[1]) + " " if t[1] else "") + "Self"
    if k == "ref":       # ["ref", l, name, args]
        inner = t[2] + ("<" + ", ".join(lt_txt(a) for a in t[3]) + ">" if t[3] and all(a is not None for a in t[3]) else "")
        return "&" + (lt_txt(t[1]) + " " if t[1] else "") + inner
    if k == "optref":
        return "Option<" + ty_txt(["ref"] + t[1:]) + ">"
    if k == "slice":
        return "&" + (lt_txt(t[1]) + " " if t[1] else "") + t[2]
    if k == "optslice":
        return "Option<" + ty_txt(["slice"] + t[1:]) + ">"
    if k == "struct":
        return t[1] + ("<" + ", ".join(lt_txt(a) for a in t[2]) + ">" if all(a is not None for a in t[2]) else "")
    if k == "optstruct":
        return "Option<" + ty_txt(["struct"] + t[1:]) + ">"
    if k == "box":
        return "Box<%s<%s>>" % (t[1], ", ".join(lt_txt(a) for a in t[2]))
    if k == "result":
        return "Result<%s, %s>" % (ty_txt(t[1]) if t[1] else "()", ty_txt(t[2]) if t[2] else "()")
    if k == "opt":
        return "Option<%s>" % ty_txt(t[1])
    raise ValueError(t)


def ty_lifetimes(t):
    """all named lifetimes a type mentions (borrow + arguments)"""
    k = t[0]
    if k in ("ref", "optref"):
        return [l for l in [t[1]] + list(t[3]) if l]
    if k in ("slice", "optslice"):
        return [t[1]] if t[1] else []
    if k in ("struct", "optstruct", "box"):
        return [l for l in t[2] if l]
    if k == "result":
        return (ty_lifetimes(t[1]) if t[1] else []) + (ty_lifetimes(t[2]) if t[2] else [])
    if k == "opt":
        return ty_lifetimes(t[1])
    return []


def implied_and_required(u, t, out):
    """appends (longer, shorter, kind) bounds a type use implies: kind 'ref' (tool derives it) or 'def' (must be spelled)"""
    k = t[0]
    if k in ("ref", "optref"):
        for a in t[3]:
            if a and t[1]:
                out.append((a, t[1], "self" if (k == "ref" and len(t) > 4 and t[4] == "Self") else "ref"))
        for (li, si) in def_bounds(u, t[2]):
            if t[3][li] and t[3][si]:
                out.append((t[3][li], t[3][si], "def"))
    elif k in ("struct", "optstruct", "box"):
        for (li, si) in def_bounds(u, t[1]):
            if t[2][li] and t[2][si]:
                out.append((t[2][li], t[2][si], "def"))
    elif k == "result":
        for x in (t[1], t[2]):
            if x:
                implied_and_required(u, x, out)
    elif k == "opt":
        implied_and_required(u, t[1], out)


@st.composite
def signature(draw, u):
    self_ty = draw(st.sampled_from(["Op", "OpA", "OpA", "St1", "St2", "OpAB"]))
    impl_lts = IMPL_LTS[self_ty]
    nl = draw(st.integers(1, 4))
    mlts = METHOD_LTS[:nl]
    named = mlts + impl_lts
    pick = st.sampled_from(named)
    pick_in = st.one_of(pick, pick, pick, st.just("static"))

    def args(n):
        return [draw(pick_in) for _ in range(n)]

    # self
    slf = None
    if self_ty in ("Op", "OpA", "OpAB"):
        sk = draw(st.sampled_from(["named", "named", "anon", "none"]))
        if sk == "named":
            slf = draw(pick)
        elif sk == "anon":
            slf = "_anon"
    elif draw(st.integers(0, 2)):
        slf = "_byval"          # `self` by value on a borrowing struct
    # is a definition-site bound of Self restated on the impl header? (rustc implies it either way; only methods taking self)
    self_spelled = draw(st.booleans()) if slf else True
    params = []
    np_ = draw(st.integers(0, 4))
    for i in range(np_):
        k = draw(st.sampled_from(["ref0", "refA", "refA", "optrefA", "refAB", "slice", "optslice", "st1", "st2", "st2", "optst2", "outer", "wrap", "anonref", "anonst", "refself"]))
        if k == "ref0":
            t = ["ref", draw(pick_in), "Op", []]
        elif k == "refA":
            t = ["ref", draw(pick_in), "OpA", args(1)]
        elif k == "optrefA":
            t = ["optref", draw(pick_in), "OpA", args(1)]
        elif k == "refAB":
            t = ["ref", draw(pick_in), "OpAB", args(2)]
        elif k == "slice":
            t = ["slice", draw(pick_in), draw(st.sampled_from(["[u8]", "str", "DiplomatStr16", "[f64]"]))]
        elif k == "optslice":
            t = ["optslice", draw(pick_in), draw(st.sampled_from(["[u16]", "str"]))]
        elif k == "st1":
            t = ["struct", "St1", args(1)]
        elif k == "st2":
            t = ["struct", "St2", args(2)]
        elif k == "optst2":
            t = ["optstruct", "St2", args(2)]
        elif k == "outer":
            t = ["struct", "Outer", args(2)]
        elif k == "wrap":
            t = ["struct", "Wrap", args(1)]
        elif k == "refself":
            if impl_lts and self_ty in ("OpA", "OpAB"):
                t = ["ref", draw(pick), self_ty, list(impl_lts), "Self"]      # `&'l Self` = `&'l OpA<'x>`: implies 'x: 'l
            else:
                t = ["ref", draw(pick_in), "Op", []]
        elif k == "anonref":
            t = draw(st.sampled_from([["ref", None, "Op", []], ["slice", None, "[u8]"], ["slice", None, "str"]]))
        else:
            t = ["struct", "St1", [None]]
        params.append(["p%d" % i, t])
    rk = draw(st.sampled_from(["ref0", "refA", "refA", "boxA", "st1", "slice", "optrefA", "resbox", "resref", "st2", "boxAB", "optst1", "reserr", "reserrst", "slicep", "slicep"]))
    r1, r2 = draw(pick), draw(pick)
    if rk == "ref0":
        ret = ["ref", r1, "Op", []]
    elif rk == "refA":
        ret = ["ref", r1, "OpA", [r2]]
    elif rk == "boxA":
        ret = ["box", "OpA", [r1]]
    elif rk == "st1":
        ret = ["struct", "St1", [r1]]
    elif rk == "optst1":
        ret = ["opt", ["struct", "St1", [r1]]]
    elif rk == "slice":
        ret = ["slice", r1, draw(st.sampled_from(["[u8]", "str"]))]
    elif rk == "slicep":
        ret = ["slice", r1, draw(st.sampled_from(["[u8]", "[f64]", "[u16]"]))]       # primitive slices: zero-copy views in Python
    elif rk == "optrefA":
        ret = ["optref", r1, "OpA", [r2]]
    elif rk == "resbox":
        ret = ["result", ["box", "OpA", [r1]], None]
    elif rk == "resref":
        ret = ["result", ["ref", r1, "Op", []], ["struct", "St1", [r2]]]
    elif rk == "reserr":
        ret = ["result", None, ["ref", r1, "OpA", [r2]]]       # unit success, only the error borrows
    elif rk == "reserrst":
        ret = ["result", None, ["struct", "St1", [r1]]]
    elif rk == "st2":
        ret = ["struct", "St2", [r1, r2]]
    else:
        ret = ["box", "OpAB", [r1, r2]]
    # declared bounds among method lifetimes (longer: shorter)
    declared = []
    nb = draw(st.integers(0, 4))
    for _ in range(nb):
        lo = draw(st.sampled_from(mlts))
        sh = draw(pick)
        if lo != sh:
            declared.append((lo, sh))
    return {"self_ty": self_ty, "impl_lts": impl_lts, "mlts": mlts, "self": slf, "params": params, "ret": ret, "declared": declared, "self_spelled": self_spelled}


def normalise(u, sig, spelled=True):
    """add the bounds validation demands (definition-site bounds restated on the method); drop 'static where it would have to be the shorter side"""
    req = []
    for _, t in sig["params"]:
        implied_and_required(u, t, req)
    implied_and_required(u, sig["ret"], req)
    if sig["self"] and sig["self"] not in ("_anon", "_byval") and sig["impl_lts"]:
        # `&'a self` with Self = OpA<'x> implies 'x: 'a. It cannot be restated on the method (it would need a where-clause on an
        # impl lifetime) and validation does not ask for it: the tool has to derive it on its own.
        for il in sig["impl_lts"]:
            req.append((il, sig["self"], "self"))
    # well-formedness of Self: `impl<'x, 'y> OpAB<'x, 'y>` with `OpAB<'x, 'y: 'x>` gives every item of the impl 'y: 'x,
    # written on the header or not
    impl_bounds = []
    for (li, si) in def_bounds(u, sig["self_ty"]):
        lo, sh = sig["impl_lts"][li], sig["impl_lts"][si]
        req.append((lo, sh, "self"))
        if sig.get("self_spelled", True):
            impl_bounds.append((lo, sh))
    declared = list(sig["declared"])
    if spelled:
        # definition-site bounds must be restated; reference-implied bounds are restated as well because validation looks at the
        # method's *direct* bound list (a bound that only follows transitively from declared ones is still demanded) -- that
        # strictness is not part of this property, so the generator satisfies it
        for lo, sh, kind in req:
            if kind == "self":
                continue
            if lo != sh and lo != "static" and sh != "static" and (lo, sh) not in declared:
                declared.append((lo, sh))
    sig = dict(sig)
    sig["declared"] = declared
    sig["implied"] = [(lo, sh) for lo, sh, kind in req if lo != sh]
    sig["impl_bounds"] = impl_bounds
    return sig


def unspelled_self(u, sig):
    """a method taking self whose Self type has definition-site bounds that the impl header does not restate, or a `&'l Self`
    parameter (its implied bound `'x: 'l` is left to rustc's inference): the tool may reject, but must not accept with fewer edges"""
    if any(t[0] == "ref" and len(t) > 4 and t[4] == "Self" for _, t in sig["params"]):
        return True
    return bool(sig["self"]) and bool(def_bounds(u, sig["self_ty"])) and not sig.get("self_spelled", True)


def impl_header(sig):
    """('<'p, 'q: 'p>', '<'p, 'q>') for `impl<..> Ty<..>`"""
    il = sig["impl_lts"]
    if not il:
        return "", ""
    decl = []
    for l in il:
        bs = [sh for lo, sh in sig.get("impl_bounds", []) if lo == l]
        decl.append("'" + l + (": " + " + ".join("'" + b for b in dict.fromkeys(bs)) if bs else ""))
    return "<%s>" % ", ".join(decl), "<%s>" % ", ".join("'" + l for l in il)


def valid(u, sig):
    """reject shapes outside the domain: a bound whose shorter side is 'static, or bounds on impl lifetimes that cannot be declared on the method"""
    for lo, sh in sig["declared"] + sig["implied"]:
        if sh == "static" and lo != "static":
            return False
        if lo in sig["impl_lts"] and (lo, sh) in sig["declared"] and sh not in sig["impl_lts"]:
            return False      # `'x: 'a` with 'x an impl lifetime needs a where-clause on the method; rendered below
    return True


def render_method(sig, name, body="todo!()"):
    decl = []
    where = []
    for l in sig["mlts"]:
        bs = [sh for lo, sh in sig["declared"] if lo == l]
        decl.append("'" + l + (": " + " + ".join("'" + b for b in dict.fromkeys(bs)) if bs else ""))
    for l in sig["impl_lts"]:
        bs = [sh for lo, sh in sig["declared"] if lo == l]
        if bs:
            where.append("'%s: %s" % (l, " + ".join("'" + b for b in dict.fromkeys(bs))))
    ps = []
    if sig["self"] == "_anon":
        ps.append("&self")
    elif sig["self"] == "_byval":
        ps.append("self")
    elif sig["self"]:
        ps.append("&'%s self" % sig["self"])
    for n, t in sig["params"]:
        ps.append("%s: %s" % (n, ty_txt(t)))
    return "        pub fn %s<%s>(%s) -> %s%s {\n            %s\n        }\n" % (
        name, ", ".join(decl), ", ".join(ps), ty_txt(sig["ret"]), (" where " + ", ".join(where)) if where else "", body)


# ---- reference model ------------------------------------------------------------------------------
def longer_closure(sig):
    lts = set(sig["mlts"]) | set(sig["impl_lts"]) | {"static"}
    longer = {l: {l} for l in lts}
    edges = [(lo, sh) for lo, sh in sig["declared"] + sig["implied"] if lo in lts and sh in lts]
    changed = True
    while changed:
        changed = False
        for lo, sh in edges:
            add = longer[lo] - longer[sh]
            if add:
                longer[sh] |= add
                changed = True
    return longer


def expected_map(sig):
    longer = longer_closure(sig)
    keys = [l for l in dict.fromkeys(ty_lifetimes(sig["ret"])) if l != "static"]
    out = {}
    for r in keys:
        L = longer[r] - {"static"}
        edges = set()
        if sig["self"] == "_byval":
            for slot, use in zip(_struct_slots(sig["self_ty"]), sig["impl_lts"]):
                if use in L:
                    edges.add(("self", "struct", slot))
        elif sig["self"] and sig["self"] != "_anon":
            lts = [sig["self"]] + list(sig["impl_lts"])
            if any(l in L for l in lts):
                edges.add(("self", "opaque", None))
        elif sig["self"] == "_anon" and sig["impl_lts"]:
            if any(l in L for l in sig["impl_lts"]):
                edges.add(("self", "opaque", None))
        for n, t in sig["params"]:
            k = t[0]
            if k in ("ref", "optref"):
                if any(l in L for l in ty_lifetimes(t)):
                    edges.add((n, "opaque", None))
            elif k in ("slice", "optslice"):
                if t[1] in L:
                    edges.add((n, "slice", None))
            elif k in ("struct", "optstruct"):
                slots = _struct_slots(t[1])
                for slot, use in zip(slots, t[2]):
                    if use in L:
                        edges.add((n, "struct", slot))
        out[r] = edges
    return out, longer


def _struct_slots(name):
    return TYPE_SLOTS[name]


def nontrivial(sig):
    exp, longer = expected_map(sig)
    direct = set(sig["declared"])
    for r, edges in exp.items():
        strict = longer[r] - {r, "static"}
        indirect = [l for l in strict if (l, r) not in direct]
        all_slots = 0
        if sig["self"]:
            all_slots += len(sig["impl_lts"]) if sig["self"] == "_byval" else 1
        for n, t in sig["params"]:
            all_slots += len(t[2]) if t[0] in ("struct", "optstruct") else 1
        if indirect and len(edges) < all_slots:
            return True
    return False


# ---- level 1 --------------------------------------------------------------------------------------
def bridge_source(u, sigs, spelled=True, with_wrap=True):
    by_ty = {}
    for i, s in enumerate(sigs):
        by_ty.setdefault((s["self_ty"],) + impl_header(s), []).append((i, s))
    src = "#[diplomat::bridge]\npub mod ffi {\n" + universe_items(u, spelled, with_wrap) + "\n"
    for (ty, ih, ia), lst in by_ty.items():
        src += "    impl%s %s%s {\n" % (ih, ty, ia)
        for i, s in lst:
            src += render_method(s, "m%d" % i)
        src += "    }\n"
    src += "}\n"
    return src


def compare(sig, got):
    """got: probe's borrow info for the method; returns None or message"""
    if "panic" in got:
        return "borrow analysis panicked: " + got["panic"][:200]
    exp, longer = expected_map(sig)
    gmap = got["map"]
    if set(gmap) != set(exp):
        return "output lifetimes with edges %s differ from the non-static lifetimes of the return type %s" % (sorted(gmap), sorted(exp))
    for r, want in exp.items():
        have = set()
        for e in gmap[r]["edges"]:
            have.add((e["param"], e["kind"], e.get("slot")))
        if have != want:
            return "edges for '%s are %s, the outlives rules (longer('%s) = %s) require exactly %s: missing %s, extra %s" % (
                r, sorted(have, key=str), r, sorted(longer[r] - {"static"}), sorted(want, key=str), sorted(want - have, key=str), sorted(have - want, key=str))
    return None


@st.composite
def batches(draw):
    u = draw(universe())
    sigs = []
    for _ in range(draw(st.integers(6, 12))):
        s = normalise(u, draw(signature(u)))
        if valid(u, s):
            sigs.append(s)
    return u, sigs


ALL_TRUE = {k: True for k in probe_mod.ALL_FLAGS}


def sig_text(sig):
    return render_method(sig, "m").strip().split("\n")[0]


def worker(widx, seed, params):
    pr = probe_mod.Probe()
    acc = pbt.Acc("C04", max_violations=6)
    known = {f["signature"] for f in findings.known_for("C04")}

    def body(case):
        if acc.full():
            return
        u, sigs = case
        # Self's definition-site bounds left off the impl header: valid Rust (rustc implies them). The tool may ask for them to
        # be written (a lowering error); if it accepts the method its edges must be the ones rustc's rules give.
        for s in [s for s in sigs if unspelled_self(u, s)]:
            r1 = pr.ask(bridge_source(u, [s]), support=ALL_TRUE, borrow=True)
            if r1["status"] != "ok":
                acc.case([sig_text(s), json.dumps(u, sort_keys=True), "unspelled-self"], True, ["unspelled-self:" + ("asked-to-restate" if "explicitly include" in str(r1.get("errors")) else "rejected")])
                continue
            acc.case([sig_text(s), json.dumps(u, sort_keys=True), "unspelled-self"], True, ["unspelled-self:accepted"])
            msg = compare(s, r1["borrow"].get("%s::m0" % s["self_ty"]))
            if msg:
                sig_ = "edges-unspelled-self|" + re.sub(r"'[a-z]+|\d+|p\d", "_", msg)[:50]
                if sig_ in known:
                    acc.extra["known:" + sig_] += 1
                    continue
                acc.violation("%s\n(the impl header does not restate Self's definition-site bound; rustc implies it)\n%s\n--- lib.rs ---\n%s" % (sig_text(s), msg, bridge_source(u, [s])), {"universe": u, "sig": s, "kind": "edges"}, signature=sig_)
        sigs = [s for s in sigs if not unspelled_self(u, s)]
        if not sigs:
            return
        src = bridge_source(u, sigs)
        rep = pr.ask(src, support=ALL_TRUE, borrow=True)
        if rep["status"] != "ok":
            # find the offending signature(s) one by one
            for i, s in enumerate(sigs):
                r1 = pr.ask(bridge_source(u, [s]), support=ALL_TRUE, borrow=True)
                if r1["status"] != "ok":
                    msg = "a signature whose required bounds are all spelled out is not accepted: %s" % (r1.get("errors") or r1.get("panic"))
                    acc.case([sig_text(s), json.dumps(u, sort_keys=True)], False, ["lowering-" + r1["status"]])
                    acc.violation(msg + "\n--- lib.rs ---\n" + bridge_source(u, [s]), {"universe": u, "sig": s, "kind": "lowering"}, signature="lowering|" + str((r1.get("errors") or [["", r1.get("panic", "")]])[0][1])[:60])
            return
        for i, s in enumerate(sigs):
            got = rep["borrow"].get("%s::m%d" % (s["self_ty"], i))
            exp, _ = expected_map(s)
            nt = nontrivial(s)
            labels = ["ret-lifetimes:%d" % len(exp)]
            if any(t[0] in ("struct", "optstruct") for _, t in s["params"]):
                labels.append("struct-param")
            if any(t[0].startswith("opt") for _, t in s["params"]):
                labels.append("optional-param")
            if any("static" in ty_lifetimes(t) for _, t in s["params"]):
                labels.append("static-input")
            for r in exp:
                acc.case([sig_text(s), json.dumps(u, sort_keys=True), r], nt, labels, sample={"signature": sig_text(s), "output_lifetime": r, "expected_edges": sorted(map(str, exp[r]))})
            msg = compare(s, got) if got is not None else "method missing from the lowered context"
            if msg:
                sig_ = "edges|" + re.sub(r"'[a-z]+|\d+|p\d", "_", msg)[:50]
                if sig_ in known:
                    acc.extra["known:" + sig_] += 1
                    continue
                acc.violation("%s\n%s\n--- lib.rs ---\n%s" % (sig_text(s), msg, bridge_source(u, [s])), {"universe": u, "sig": s, "kind": "edges"}, signature=sig_)

    pbt.explore(batches(), body, params["n"], seed)
    pr.close()
    return acc.result()


# ---- level 2: rustc decides outlives --------------------------------------------------------------
def plain_ty(t):
    k = t[0]
    s = ty_txt(t)
    return s.replace("DiplomatStr16", "[u16]")


def rustc_outlives(work, u, sigs):
    """returns {(sig index, l, r): bool accepted}"""
    src = "#![allow(warnings)]\n" + plain_items(u) + "\nfn outl<'l: 'r, 'r>() {}\n"
    fn_lines = {}
    line = src.count("\n") + 1
    for i, s in enumerate(sigs):
        names = s["mlts"] + s["impl_lts"]
        ih, il = impl_header(s)
        for l in names:
            for r in names:
                if l == r:
                    continue
                body = "outl::<'%s, '%s>(); todo!()" % (l, r)
                txt = "impl%s %s%s {\n%s}\n" % (ih, s["self_ty"], il, render_method(s, "m%d_%s_%s" % (i, l, r), body).replace("DiplomatStr16", "[u16]"))
                n = txt.count("\n")
                fn_lines[(i, l, r)] = (line, line + n - 1)
                src += txt
                line += n
    entry = os.path.join(work, "outl.rs")
    open(entry, "w").write(src)
    p = subprocess.run(["rustc", "--edition", "2021", "--crate-type", "lib", "--emit=metadata", "--error-format=json", "-o", os.path.join(work, "outl.rmeta"), entry],
                       stdout=subprocess.PIPE, stderr=subprocess.PIPE, text=True)
    bad_lines = set()
    other = []
    for ln in p.stderr.split("\n"):
        if not ln.startswith("{"):
            continue
        d = json.loads(ln)
        if d.get("level") != "error":
            continue
        if "lifetime may not live long enough" in d.get("message", ""):
            for sp in d.get("spans", []):
                bad_lines.add(sp["line_start"])
        elif "aborting" not in d.get("message", ""):
            other.append(d.get("message", ""))
    if other:
        raise build.Inconclusive("outlives probe crate has unexpected errors: %s" % other[:3])
    res = {}
    for key, (a, b) in fn_lines.items():
        res[key] = not any(a <= x <= b for x in bad_lines)
    return res


def rustc_worker(widx, seed, params):
    work = build.workdir("c04-rustc-w%d" % widx)
    acc = pbt.Acc("C04", max_violations=3)

    def body(case):
        u, sigs = case
        if not sigs:
            return
        res = rustc_outlives(work, u, sigs)
        for i, s in enumerate(sigs):
            _, longer = expected_map(s)
            for (j, l, r), accepted in res.items():
                if j != i:
                    continue
                model = l in longer[r]
                acc.case([sig_text(s), l, r], model, ["rustc-pair:" + ("outlives" if accepted else "unrelated")])
                if model != accepted:
                    raise build.Inconclusive("reference outlives model disagrees with rustc on %s: '%s: '%s model=%s rustc=%s (universe %s)" % (sig_text(s), l, r, model, accepted, u))

    pbt.explore(batches(), body, params["n"], seed)
    build.rm_workdir(work)
    return acc.result()


# ---- level 3: managed backends ---------------------------------------------------------------------
def camel(n):
    parts = n.split("_")
    return parts[0] + "".join(p.capitalize() for p in parts[1:])


def js_edges(text, method):
    """{lifetime: [entries]} from `let aEdges = [...]` inside a JS method"""
    m = re.search(r"\n    (?:static )?%s\([^)]*\) \{(.*?)\n    \}\n" % re.escape(method), text, re.S)
    if not m:
        return None
    out = {}
    for em in re.finditer(r"let (\w+)Edges = \[(.*?)\];", m.group(1)):
        out[em.group(1)] = [x.strip() for x in em.group(2).split(",") if x.strip()]
    return out


def dart_edges(text, method):
    m = re.search(r"\n  (?:static )?[\w<>?. ]+ %s\([^)]*\) \{(.*?)\n  \}\n" % re.escape(method), text, re.S)
    if not m:
        return None
    out = {}
    for em in re.finditer(r"core\.List<Object> (\w+)Edges = \[(.*?)\];", m.group(1)):
        out[em.group(1)] = [x.strip() for x in em.group(2).split(",") if x.strip()]
    return out


def kotlin_edges(text, method):
    """{lifetime: [terms]} from `val aEdges: List<Any?> = o.aEdges + listOf(g)` inside a Kotlin method (`self` for selfEdges)"""
    m = re.search(r"\n\s*fun %s\((.*?)(?=\n\s*(?:@JvmStatic\s*\n\s*)?fun |\Z)" % re.escape(method), text, re.S)
    if not m:
        return None
    out = {}
    for em in re.finditer(r"val (\w+)Edges: List<Any\??> = (.*)", m.group(1)):
        out[em.group(1)] = [x.strip() for x in em.group(2).split(" + ") if x.strip() and x.strip() != "listOf()"]
    return out


def nanobind_keepalive(text, cls, method):
    """argument indices kept alive by the returned value (`nb::keep_alive<0, k>`), or None"""
    m = re.search(r'\.def(?:_static)?\("%s", &%s::%s\b([^\n]*)' % (re.escape(method), re.escape(cls), re.escape(method)), text)
    if not m:
        return None
    return {int(k) for k in re.findall(r"nb::keep_alive<0, (\d+)>", m.group(1))}


def entry_matches(entries, param, kind, slot, lang):
    """does an emitted edge list mention the input?"""
    p = "this" if param == "self" else camel(param)
    if lang == "kotlin":
        for e in entries:
            if kind == "opaque" and e == "listOf(%s)" % p:
                return True
            if kind == "slice" and e in ("listOf(%sMem)" % p, "listOf(%s)" % p, "listOf(%sSlice)" % p):
                return True
            if kind == "struct" and e == "%s.%sEdges" % (p, slot):
                return True
        return False
    for e in entries:
        if kind == "opaque" and e == p:
            return True
        if kind == "slice" and e in (p + "Slice", p + "Arena", p):
            return True
        if kind == "struct" and slot is not None and p in e and ("_fieldsForLifetime" + slot.upper()) in e:
            return True
    return False


# ---- level 4: the generated JS is executed and the edge arrays of the returned object are read back --------------------------
def struct_opaque_paths(u, name, slot):
    """paths of the opaque references inside a by-value struct that live under the definition's lifetime `slot`"""
    h = ["h"] if u["st2_bound"] == "field" else []
    if name == "St1":
        return ["o"]
    if name == "St2":
        return (["f"] if slot == "p" else ["g"]) + h
    if name == "Outer":
        return ["s." + x for x in struct_opaque_paths(u, "St2", "p" if slot == "m" else "q")] + (["t.o"] if slot == "n" else [])
    if name == "Wrap":
        return ["i.o"]      # (only when the optional field is present: see js_value)
    raise ValueError(name)


def js_value(u, label, t):
    k = t[0]
    if k in ("ref", "optref"):
        return {"k": "opaque", "ty": t[2], "label": label}
    if k in ("slice", "optslice"):
        return {"k": "str", "v": "ab"} if t[2] in ("str", "DiplomatStr16") else {"k": "slice", "v": [1, 2, 3]}
    if k in ("struct", "optstruct"):
        name = t[1]
        if name == "St1":
            f = {"o": js_value(u, label + ".o", ["ref", None, "Op", []]), "s": {"k": "str", "v": "xy"}}
        elif name == "St2":
            f = {"f": js_value(u, label + ".f", ["ref", None, "Op", []]), "g": js_value(u, label + ".g", ["ref", None, "Op", []])}
            if u["st2_bound"] == "field":
                f["h"] = js_value(u, label + ".h", ["ref", None, "OpA", [None]])
        elif name == "Wrap":
            # the optional nested struct is absent for every other parameter
            absent = label[-1:] in "02468"
            f = {"i": {"k": "none"} if absent else js_value(u, label + ".i", ["struct", "St1", [None]]), "k": {"k": "slice", "v": 7}}
        else:
            f = {"s": js_value(u, label + ".s", ["struct", "St2", [None, None]]), "t": js_value(u, label + ".t", ["struct", "St1", [None]])}
        # (top-level arguments p1, p3 are handed over as plain objects, the declared `<Type>_obj`; the others as class instances)
        return {"k": "struct", "ty": name, "fields": f, "plain": "." not in label and label[-1:] in "13579"}
    raise ValueError(t)


def js_runtime_spec(u, sigs):
    """(spec for node/js-edges.mjs, [(index in sigs, expected labels)]) for the signatures returning an opaque"""
    methods, expect = [], []
    for i, s in enumerate(sigs):
        if s["ret"][0] not in ("ref", "optref", "box"):
            continue
        exp, _ = expected_map(s)
        want = set()
        for edges in exp.values():
            for (n, kind, slot) in edges:
                if kind == "opaque":
                    want.add(n)
                elif kind == "struct":
                    t = ["struct", s["self_ty"], list(s["impl_lts"])] if n == "self" else dict((a, b) for a, b in s["params"])[n]
                    if t[1] == "Wrap" and n[-1:] in "02468":
                        continue        # absent optional field: nothing to keep alive, but the call must not throw
                    want.update(n + "." + p_ for p_ in struct_opaque_paths(u, t[1], slot))
        slf = None
        if s["self"] == "_byval":
            slf = js_value(u, "self", ["struct", s["self_ty"], list(s["impl_lts"])])
        elif s["self"]:
            slf = {"k": "opaque", "ty": s["self_ty"], "label": "self"}
        methods.append({"cls": s["self_ty"], "name": "m%d" % i, "self": slf, "args": [js_value(u, n, t) for n, t in s["params"]]})
        expect.append((i, sorted(want)))
    return {"methods": methods}, expect


def backend_worker(widx, seed, params):
    art = build.ensure_repo_artifacts()
    work = build.workdir("c04-be-w%d" % widx)
    acc = pbt.Acc("C04", max_violations=4)
    pbt.explore(batches(), lambda case: backend_body(art, work, acc, case), params["n"], seed)
    build.rm_workdir(work)
    return acc.result()


def backend_body(art, work, acc, case):
    if True:
        if acc.full():
            return
        u, sigs = case
        # nanobind hands primitive slices back as zero-copy views: a returned `&'a [T]` needs its keep_alive as well
        nsl = [s for s in sigs if s["ret"][0] == "slice" and s["ret"][2] != "str" and not any("static" in ty_lifetimes(t) for _, t in s["params"]) and "static" not in ty_lifetimes(s["ret"])
               and not unspelled_self(u, s) and not any(t[0] in ("optstruct", "optslice") for _, t in s["params"])]
        if nsl:
            entry = os.path.join(work, "libn.rs")
            open(entry, "w").write(bridge_source(u, nsl))
            r = tool.run_backend(art, "nanobind", entry, os.path.join(work, "out-nanobind-slices"))
            if not r.ok:
                acc.labels["nanobind-slices:%s" % r.classify()] += 1
            else:
                texts = [open(os.path.join(dp, fn)).read() for dp, _, fns in os.walk(r.outdir) for fn in fns if fn.endswith("_ext.cpp")]
                for i, s in enumerate(nsl):
                    exp, _ = expected_map(s)
                    keep = None
                    for t_ in texts:
                        keep = nanobind_keepalive(t_, s["self_ty"], "m%d" % i)
                        if keep is not None:
                            break
                    if keep is None:
                        acc.labels["nanobind:method-not-found"] += 1
                        continue
                    names = (["self"] if s["self"] else []) + [n for n, _ in s["params"]]
                    need = set()
                    for rlt, want in exp.items():
                        need.update(w[0] for w in want)
                    acc.case(["nanobind-slice", sig_text(s)], nontrivial(s), ["backend:nanobind-slice-return"], sample={"backend": "nanobind", "signature": sig_text(s), "keep_alive": sorted(keep)})
                    missing = [n for n in sorted(need) if (names.index(n) + 1) not in keep]
                    if missing:
                        msg = "nanobind: a returned primitive slice is a view, yet keep_alive indices %s do not keep %s alive (arguments: %s)" % (sorted(keep), missing, names)
                        acc.violation("%s\n%s\n--- lib.rs ---\n%s" % (sig_text(s), msg, bridge_source(u, [s])), {"universe": u, "sig": s, "kind": "backend", "backend": "nanobind"}, signature="backend|nanobind|keep_alive-slice")
        # restrict to returns that carry edges in managed languages: opaque / struct returns
        sigs = [s for s in sigs if s["ret"][0] in ("ref", "optref", "box", "struct", "result", "opt") and not any("static" in ty_lifetimes(t) for _, t in s["params"])
                and "static" not in ty_lifetimes(s["ret"]) and not unspelled_self(u, s)]
        if not sigs:
            return
        src = bridge_source(u, sigs)
        entry = os.path.join(work, "lib.rs")
        open(entry, "w").write(src)
        for b in ("js", "dart"):
            r = tool.run_backend(art, b, entry, os.path.join(work, "out-" + b), config=["js.abi=spec"] if b == "js" else None)
            if not r.ok:
                acc.labels["%s:%s" % (b, r.classify())] += 1
                continue
            for i, s in enumerate(sigs):
                exp, _ = expected_map(s)
                fn = os.path.join(r.outdir, s["self_ty"] + (".mjs" if b == "js" else ".g.dart"))
                text = open(fn).read()
                got = (js_edges if b == "js" else dart_edges)(text, "m%d" % i)
                if got is None:
                    acc.labels["%s:method-not-found" % b] += 1
                    continue
                for rlt, want in exp.items():
                    acc.case([b, sig_text(s), rlt], nontrivial(s), ["backend:%s" % b], sample={"backend": b, "signature": sig_text(s), "lifetime": rlt, "emitted": got.get(rlt)})
                    if not want:
                        continue
                    entries = got.get(rlt)
                    if entries is None:
                        msg = "%s: no edge list for output lifetime '%s although %s must be kept alive" % (b, rlt, sorted(map(str, want)))
                    else:
                        missing = [w for w in want if not entry_matches(entries, w[0], w[1], w[2], b)]
                        msg = None if not missing else "%s: the edge list for '%s is %s and does not keep %s alive" % (b, rlt, entries, sorted(map(str, missing)))
                    if msg:
                        acc.violation("%s\n%s\n--- lib.rs ---\n%s" % (sig_text(s), msg, bridge_source(u, [s])), {"universe": u, "sig": s, "kind": "backend", "backend": b}, signature="backend|%s|%s" % (b, msg.split("'")[0][:30]))
            if b == "js":
                from .. import compilers
                compilers.install_js_stub(r.outdir)
                spec, expect = js_runtime_spec(u, sigs)
                if spec["methods"]:
                    sf = os.path.join(work, "edges-spec.json")
                    json.dump(spec, open(sf, "w"))
                    rc, so, se = compilers.node_run(os.path.join(compilers.NODE_DIR, "js-edges.mjs"), [r.outdir, sf])
                    try:
                        res = json.loads(so.strip().split("\n")[-1])
                    except (ValueError, IndexError):
                        raise build.Inconclusive("js-edges driver failed: " + (se or so)[-400:])
                    for (i, want), got in zip(expect, res):
                        s = sigs[i]
                        acc.case(["js-run", sig_text(s)], nontrivial(s) or any("." in w for w in want), ["backend:js-executed"], sample={"backend": "js (executed)", "signature": sig_text(s), "kept_alive": got.get("all"), "required": want})
                        msg = None
                        if "threw" in got:
                            msg = "js: calling the generated method throws: %s" % got["threw"][:300]
                        elif got.get("ret") == "object":
                            missing = [w for w in want if w not in got["all"]]
                            if missing:
                                msg = "js (executed): the returned object's edge arrays hold %s and do not keep %s alive" % (got["edges"], missing)
                        if msg:
                            acc.violation("%s\n%s\n--- lib.rs ---\n%s" % (sig_text(s), msg, bridge_source(u, [s])), {"universe": u, "sig": s, "kind": "backend", "backend": "js-run"},
                                          signature="backend|js-run|%s" % re.sub(r"\d+", "N", msg)[:40])


        # kotlin and nanobind accept a smaller grammar (no Option<struct>, no optional slices): they get their own file
        # (a struct in the Err arm needs kotlin's `error` attribute: a recorded C15 finding when it is missing)
        ksigs = [s for s in sigs if not any(t[0] in ("optstruct", "optslice") or (t[0] == "struct" and t[1] == "Wrap") for _, t in s["params"]) and s["ret"][0] != "opt" and not (s["ret"][0] == "result" and s["ret"][2])]
        if ksigs:
            entry = os.path.join(work, "libk.rs")
            open(entry, "w").write(bridge_source(u, ksigs, with_wrap=False))
            for b in ("kotlin", "nanobind"):
                r = tool.run_backend(art, b, entry, os.path.join(work, "out-" + b))
                if not r.ok:
                    acc.labels["%s:%s" % (b, r.classify())] += 1
                    continue
                texts = {}
                for dp, _, fns in os.walk(r.outdir):
                    for fn in fns:
                        if fn.endswith(".kt") or fn.endswith("_ext.cpp"):
                            texts[fn] = open(os.path.join(dp, fn)).read()
                for i, s in enumerate(ksigs):
                    exp, _ = expected_map(s)
                    if b == "kotlin":
                        got = kotlin_edges(texts.get(s["self_ty"] + ".kt", ""), "m%d" % i)
                        if got is None:
                            acc.labels["kotlin:method-not-found"] += 1
                            continue
                        for rlt, want in exp.items():
                            acc.case([b, sig_text(s), rlt], nontrivial(s), ["backend:kotlin"], sample={"backend": b, "signature": sig_text(s), "lifetime": rlt, "emitted": got.get(rlt)})
                            if not want:
                                continue
                            # a returned reference keeps its own borrow's inputs in `selfEdges`
                            entries = (got.get(rlt) or []) + (got.get("self") or [])
                            missing = [w for w in want if not entry_matches(entries, w[0], w[1], w[2], "kotlin")]
                            if missing:
                                msg = "kotlin: the edge lists for '%s are %s and do not keep %s alive" % (rlt, entries, sorted(map(str, missing)))
                                acc.violation("%s\n%s\n--- lib.rs ---\n%s" % (sig_text(s), msg, bridge_source(u, [s])), {"universe": u, "sig": s, "kind": "backend", "backend": b}, signature="backend|kotlin|%s" % msg.split("'")[0][:30])
                    else:
                        keep = None
                        for t_ in texts.values():
                            keep = nanobind_keepalive(t_, s["self_ty"], "m%d" % i)
                            if keep is not None:
                                break
                        if keep is None:
                            acc.labels["nanobind:method-not-found"] += 1
                            continue
                        names = (["self"] if s["self"] else []) + [n for n, _ in s["params"]]
                        need = set()
                        for rlt, want in exp.items():
                            need.update(w[0] for w in want)
                        acc.case([b, sig_text(s)], nontrivial(s), ["backend:nanobind"], sample={"backend": b, "signature": sig_text(s), "keep_alive": sorted(keep)})
                        missing = [n for n in sorted(need) if (names.index(n) + 1) not in keep]
                        if missing:
                            msg = "nanobind: keep_alive indices %s do not keep %s alive (arguments: %s)" % (sorted(keep), missing, names)
                            acc.violation("%s\n%s\n--- lib.rs ---\n%s" % (sig_text(s), msg, bridge_source(u, [s])), {"universe": u, "sig": s, "kind": "backend", "backend": b}, signature="backend|nanobind|keep_alive")


def probe_known(pr):
    """the definition-site gap (F6): bounds rustc infers through a nested by-value struct field are not required on the method"""
    seen = []
    for f in findings.known_for("C04"):
        p = f.get("probe")
        if not p:
            continue
        rep = pr.ask(p["lib_rs"], support=ALL_TRUE, borrow=True)
        if rep["status"] == "ok":
            got = rep["borrow"].get(p["method"], {}).get("map", {})
            have = {(e["param"], e.get("slot")) for e in got.get(p["lifetime"], {}).get("edges", [])}
            if (p["missing_param"], None) not in have and not any(h[0] == p["missing_param"] for h in have):
                seen.append(f["what"])
    return seen


def run(ctx):
    n1 = 450 if ctx.quick else 12000
    n2 = 6 if ctx.quick else 150
    n3 = 12 if ctx.quick else 300
    build.ensure_rs("dv-probe", "release")
    m1 = pbt.run_workers("checks.c04", "worker", 10, ctx.seed, {"n": n1})
    m2 = pbt.run_workers("checks.c04", "rustc_worker", 10, ctx.seed + 3, {"n": n2})
    m3 = pbt.run_workers("checks.c04", "backend_worker", 10, ctx.seed + 7, {"n": n3})
    pr = probe_mod.Probe()
    known_seen = probe_known(pr)
    pr.close()
    labels = dict(m1["labels"])
    labels.update(m2["labels"])
    labels.update(m3["labels"])
    cov = {"evaluations": m1["evaluations"] + m3["evaluations"], "distinct_nontrivial": m1["distinct_nontrivial"] + m3["distinct_nontrivial"],
           "rule": RULE, "samples": m1["samples"][:3] + m3["samples"][:1], "labels": labels,
           "rustc_outlives_pairs_checked": m2["evaluations"], "model_vs_rustc_disagreements": 0}
    return {"coverage": cov, "assumptions": ASSUME, "violations": m1["violations"] + m3["violations"], "known_seen": known_seen}


def replay(ctx):
    c = json.load(open(ctx.replay))["case"]
    u, s = c["universe"], c["sig"]
    s["declared"] = [tuple(x) for x in s["declared"]]
    s["implied"] = [tuple(x) for x in s["implied"]]
    if c.get("kind") == "backend":
        art = build.ensure_repo_artifacts()
        work = build.workdir("c04-replay")
        acc = pbt.Acc("C04", max_violations=10)
        backend_body(art, work, acc, (u, [s]))
        build.rm_workdir(work)
        for v in acc.violations:
            print(v["message"][:1500])
        if not acc.violations:
            print("replay ok: the backends' edges keep the required inputs alive")
        return {"violations": [{"replay": ctx.replay, "message": v["message"][:1200]} for v in acc.violations]}
    pr = probe_mod.Probe()
    src = bridge_source(u, [s])
    rep = pr.ask(src, support=ALL_TRUE, borrow=True)
    pr.close()
    print(src)
    if rep["status"] != "ok":
        print(rep)
        return {"violations": [{"replay": ctx.replay, "message": str(rep)[:500]}]}
    got = rep["borrow"].get("%s::m0" % s["self_ty"])
    msg = compare(s, got)
    print(msg or "replay ok: edges match the model")
    return {"violations": [{"replay": ctx.replay, "message": msg}] if msg else []}
