"""C08 — JS bindings read and write structs with the real wasm32 repr(C) layout."""
import json, os, struct as pystruct, subprocess
from hypothesis import strategies as st
from .. import build, pbt, tool, compilers, findings
from ..gen import ir

RULE = ("Hypothesis-generated batches of structs and out-structs (1-8 fields in generated order: all primitives, enums, &Opaque / Option<&Opaque> / Box<Opaque>, "
        "primitive and string slices, nested structs to depth 2, DiplomatOption<prim|enum|struct>) with generated field values (extremes, u64 > 2^53, -0.0, inf). "
        "The generated .mjs is executed in Node against a stub wasm module (real WebAssembly.Memory, recording exports). Oracle: a Rust program with the same "
        "definitions (pointer-sized fields replaced by u32, slices by [u32;2], using the real diplomat_runtime::DiplomatOption) prints size/align/offset_of!; from these "
        "the expected little-endian bytes are computed. Checked per (struct, value): bytes written by _writeToArrayBuffer at every leaf, values read back by _fromFFI from "
        "oracle bytes, buffer size/alignment of _intoFFI (spec) and of the receive buffer of a method returning the struct, and the flattened argument list of a method "
        "taking the struct (legacy ABI: reference model of docs/wasm_abi_quirks.md; spec ABI: pointer / single scalar). A case = one (struct, value, js.abi). "
        "Non-trivial: struct with interior and trailing padding, or a nested struct inside a larger struct, or an option field. Distinct = distinct (struct definition, value, abi).")
ASSUME = [
    "wasm32 layout is obtained on x86-64 by replacing pointer-sized fields with 32-bit ones (all remaining primitive alignments coincide with wasm32's)",
    "the legacy argument-flattening oracle is a reference model written from docs/wasm_abi_quirks.md; no compiler with the legacy wasm ABI exists in this sandbox",
    "padding bytes are not compared (JS may leave them untouched)",
]

PRIMS = ["i8", "u8", "i16", "u16", "i32", "u32", "i64", "u64", "isize", "usize", "f32", "f64", "bool", "DiplomatChar", "DiplomatByte"]
PSIZE = {"i8": 1, "u8": 1, "i16": 2, "u16": 2, "i32": 4, "u32": 4, "i64": 8, "u64": 8, "isize": 4, "usize": 4, "f32": 4, "f64": 8, "bool": 1,
         "DiplomatChar": 4, "DiplomatByte": 1}
ORACLE_TY = {"isize": "i32", "usize": "u32", "DiplomatChar": "u32", "DiplomatByte": "u8"}
SLICE_ELEMS = ["u8", "i16", "u16", "i32", "u32", "f32", "f64", "i64", "u64", "bool"]
ENUMS = {"EnA": [["Aa", None], ["Bb", None], ["Cc", None]], "EnB": [["Xx", -2], ["Yy", 7], ["Zz", None]]}
ENUM_VALUES = {"EnA": {"Aa": 0, "Bb": 1, "Cc": 2}, "EnB": {"Xx": -2, "Yy": 7, "Zz": 8}}
FIELD_NAMES = ["a", "b", "c", "d", "e", "f", "g", "h"]


# ---- generation ---------------------------------------------------------------------------------
@st.composite
def field_type(draw, earlier, out):
    opts = ["prim"] * 5 + ["enum", "opt", "opt", "ref", "optref", "slice", "str"]
    if earlier:
        opts += ["struct", "struct", "optstruct"]
    if out:
        opts += ["box", "optbox"]
    k = draw(st.sampled_from(opts))
    if k == "prim":
        return ["prim", draw(st.sampled_from(PRIMS))]
    if k == "enum":
        return ["enum", draw(st.sampled_from(sorted(ENUMS)))]
    if k == "opt":
        inner = draw(st.one_of(st.sampled_from(PRIMS).map(lambda p: ["prim", p]), st.sampled_from(sorted(ENUMS)).map(lambda e: ["enum", e])))
        return ["opt", inner, "dip"]
    if k in ("struct", "optstruct"):
        s = draw(st.sampled_from(earlier))
        t = ["struct", s["name"], ["a"] if s["lifetimes"] else []]
        return ["opt", t, "dip"] if k == "optstruct" else t
    if k == "ref":
        return ["ref", "a", False, "Op", []]
    if k == "optref":
        return ["opt", ["ref", "a", False, "Op", []], "std"]
    if k == "box":
        return ["box", "Op", []]
    if k == "optbox":
        return ["opt", ["box", "Op", []], "std"]
    if k == "slice":
        return ["slice", "a", False, draw(st.sampled_from(SLICE_ELEMS)), "dip"]
    return ["str", "a", draw(st.sampled_from(["utf8", "str8", "str16"])), "dip"]


def depth_of(items, t):
    if t[0] == "struct":
        s = next(i for i in items if i["name"] == t[1])
        return 1 + max([depth_of(items, f[1]) for f in s["fields"]] or [0])
    if t[0] == "opt":
        return depth_of(items, t[1])
    return 0


@st.composite
def batch(draw):
    n = draw(st.integers(5, 9))
    items = []
    for i in range(n):
        out = draw(st.integers(0, 4)) == 0
        # out-structs may only nest structs; plain structs may not nest out-structs
        earlier = [s for s in items if depth_of(items, ["struct", s["name"], []]) <= 1 and (out or not s["out"])]
        # a third of the structs are small and scalar-only (1-3 fields: primitives, enums, earlier small structs): the wasm C ABI
        # treats aggregates of one, two, three and four-or-more scalars differently, nested or not
        small = draw(st.integers(0, 2)) == 0
        k = draw(st.integers(1, 3)) if small else draw(st.integers(1, 8))
        fields = []
        for j in range(k):
            if small:
                smalls = [s_ for s_ in earlier if s_.get("_small") and not s_["out"]]
                kind = draw(st.sampled_from(["prim", "prim", "prim", "enum"] + (["struct", "struct"] if smalls else [])))
                if kind == "prim":
                    ft = ["prim", draw(st.sampled_from(PRIMS))]
                elif kind == "enum":
                    ft = ["enum", draw(st.sampled_from(sorted(ENUMS)))]
                else:
                    ft = ["struct", draw(st.sampled_from(smalls))["name"], []]
                fields.append([FIELD_NAMES[j], ft, []])
                continue
            fields.append([FIELD_NAMES[j], draw(field_type(earlier, out)), []])
        fields_perm = draw(st.permutations(fields))
        fields = [[FIELD_NAMES[j], f[1], []] for j, f in enumerate(fields_perm)]
        borrows = any(ir.type_lifetimes(f[1]) for f in fields)
        items.append({"kind": "struct", "name": "S%d" % i, "attrs": [], "out": out, "lifetimes": [["a", []]] if borrows else [], "fields": fields, "impls": [], "_small": small})
    abi_mode = draw(st.sampled_from(["legacy", "spec"]))
    values = {}
    for s in items:
        values[s["name"]] = [draw(value_for(items, ["struct", s["name"], []], top=True)) for _ in range(draw(st.integers(1, 3)))]
    return {"items": items, "abi": abi_mode, "values": values}


INT_RANGE = {"i8": (-128, 127), "u8": (0, 255), "i16": (-2 ** 15, 2 ** 15 - 1), "u16": (0, 2 ** 16 - 1), "i32": (-2 ** 31, 2 ** 31 - 1), "u32": (0, 2 ** 32 - 1),
             "i64": (-2 ** 63, 2 ** 63 - 1), "u64": (0, 2 ** 64 - 1), "isize": (-2 ** 31, 2 ** 31 - 1), "usize": (0, 2 ** 32 - 1), "DiplomatChar": (0, 0x10FFFF),
             "DiplomatByte": (0, 255)}


def prim_value(p):
    if p in INT_RANGE:
        lo, hi = INT_RANGE[p]
        base = st.one_of(st.sampled_from([lo, hi, 0, 1, hi - 1, (lo + hi) // 2]), st.integers(lo, hi))
        if p in ("i64", "u64"):
            return base.map(lambda v: {"k": "big", "v": str(v)})
        return base.map(lambda v: {"k": "int", "v": v})
    if p == "bool":
        return st.booleans().map(lambda v: {"k": "bool", "v": v})
    if p == "f32":
        return st.sampled_from([0, 0x80000000, 0x3F800000, 0xBF800000, 0x7F800000, 0xFF800000, 0x7F7FFFFF, 0x00000001, 0x3EAAAAAB, 0x42F6E979]).map(lambda b: {"k": "f32", "bits": b})
    if p == "f64":
        return st.sampled_from([(0, 0), (0x80000000, 0), (0x3FF00000, 0), (0x7FF00000, 0), (0xFFF00000, 0), (0x7FEFFFFF, 0xFFFFFFFF), (0, 1), (0x400921FB, 0x54442D18)]).map(
            lambda hl: {"k": "f64", "hi": hl[0], "lo": hl[1]})
    raise ValueError(p)


@st.composite
def value_for(draw, items, t, top=False):
    k = t[0]
    if k == "prim":
        return draw(prim_value(t[1]))
    if k == "enum":
        v = draw(st.sampled_from(sorted(ENUM_VALUES[t[1]])))
        return {"k": "enum", "ty": t[1], "variant": v}
    if k == "struct":
        s = next(i for i in items if i["name"] == t[1])
        return {"k": "struct", "ty": t[1], "fields": {f[0]: draw(value_for(items, f[1])) for f in s["fields"]}, "asObject": (not top) and draw(st.booleans())}
    if k == "opt":
        if draw(st.integers(0, 2)) == 0:
            return {"k": "none"}
        return draw(value_for(items, t[1]))
    if k in ("ref", "box"):
        return {"k": "opaque", "ty": t[3] if k == "ref" else t[1], "ptr": draw(st.integers(1, 2 ** 27)) * 8}
    if k == "slice":
        n = draw(st.integers(0, 4))
        e = t[3]
        if e in ("f32", "f64"):
            vals = [draw(st.sampled_from([0.0, 1.0, -2.5, 1024.0, 0.5])) for _ in range(n)]
        elif e == "bool":
            vals = [draw(st.integers(0, 1)) for _ in range(n)]
        else:
            lo, hi = INT_RANGE[e]
            vals = [draw(st.one_of(st.sampled_from([lo, hi, 0]), st.integers(lo, hi))) for _ in range(n)]
            if e in ("i64", "u64"):
                vals = [str(v) for v in vals]
        return {"k": "slice", "elem": e, "v": vals}
    if k == "str":
        alphabet = "abcXYZ09 _" + ("é€😀ß" if t[2] != "str8" or True else "")
        s = draw(st.text(alphabet=alphabet, min_size=0, max_size=6))
        return {"k": "str", "enc": t[2], "v": s}
    raise ValueError(t)


# ---- oracle layout ------------------------------------------------------------------------------
def oracle_type(t):
    k = t[0]
    if k == "prim":
        return ORACLE_TY.get(t[1], t[1])
    if k == "enum":
        return t[1]
    if k == "struct":
        return t[1]
    if k == "opt":
        if t[1][0] in ("ref", "box"):
            return "u32"
        return "diplomat_runtime::DiplomatOption<%s>" % oracle_type(t[1])
    if k in ("ref", "box"):
        return "u32"
    if k in ("slice", "str"):
        return "[u32; 2]"
    raise ValueError(t)


def ret_pairs(items):
    """(kind, index, ok struct, err struct|None): Result<Sa, Sb> and Option<Sa> returns exercised for the receive-buffer leg"""
    plain = [s_ for s_ in items if not s_["out"] and not s_["lifetimes"]]
    out = []
    for i, sa in enumerate(plain[:3]):
        sb = plain[(i + 1) % len(plain)]
        out.append(("res", i, sa["name"], sb["name"]))
        out.append(("optret", i, sa["name"], None))
        out.append(("resunit", i, None, sb["name"]))       # Result<(), Sb>
    return out


def oracle_source(items):
    src = "#![allow(warnings)]\nuse core::mem::{size_of, align_of, offset_of};\n"
    for en, vs in ENUMS.items():
        src += "#[repr(C)]\n#[derive(Clone, Copy)]\npub enum %s { %s }\n" % (en, ", ".join(v + ("" if d is None else " = %d" % d) for v, d in vs))
    opts = set()

    def collect(t):
        if t[0] == "opt" and t[1][0] not in ("ref", "box"):
            opts.add(oracle_type(t[1]))
            collect(t[1])
    for s in items:
        src += "#[repr(C)]\npub struct %s { %s }\n" % (s["name"], ", ".join("pub %s: %s" % (f[0], oracle_type(f[1])) for f in s["fields"]))
        for f in s["fields"]:
            collect(f[1])
    src += "fn main() {\n"
    for s in items:
        src += '    println!("size %s {} {}", size_of::<%s>(), align_of::<%s>());\n' % (s["name"], s["name"], s["name"])
        for f in s["fields"]:
            src += '    println!("off %s %s {}", offset_of!(%s, %s));\n' % (s["name"], f[0], s["name"], f[0])
    for o in sorted(opts):
        src += '    println!("opt {} {} {} {}", "%s".replace(" ", ""), offset_of!(diplomat_runtime::DiplomatOption<%s>, is_ok), size_of::<diplomat_runtime::DiplomatOption<%s>>(), align_of::<diplomat_runtime::DiplomatOption<%s>>());\n' % (o, o, o, o)
    for kind, i, a, b_ in ret_pairs(items):
        ty = "diplomat_runtime::DiplomatResult<%s, %s>" % (a or "()", b_) if kind in ("res", "resunit") else "diplomat_runtime::DiplomatOption<%s>" % a
        src += '    println!("ret %s %d {} {} {}", offset_of!(%s, is_ok), size_of::<%s>(), align_of::<%s>());\n' % (kind, i, ty, ty, ty)
    src += "}\n"
    return src


def run_oracle(art, work, items):
    entry = os.path.join(work, "oracle.rs")
    open(entry, "w").write(oracle_source(items))
    exe = os.path.join(work, "oracle")
    ok, err = compilers.rustc(art, entry, exe, crate_type="bin", emit=None, crate_name="dvoracle")
    if not ok:
        raise build.Inconclusive("layout oracle does not compile: " + err[-800:])
    p = subprocess.run([exe], stdout=subprocess.PIPE, text=True)
    lay = {"size": {}, "off": {}, "opt": {}, "ret": {}}
    for line in p.stdout.split("\n"):
        w = line.split()
        if not w:
            continue
        if w[0] == "size":
            lay["size"][w[1]] = (int(w[2]), int(w[3]))
        elif w[0] == "off":
            lay["off"][(w[1], w[2])] = int(w[3])
        elif w[0] == "opt":
            lay["opt"][w[1]] = (int(w[2]), int(w[3]), int(w[4]))
        elif w[0] == "ret":
            lay["ret"][(w[1], int(w[2]))] = (int(w[3]), int(w[4]), int(w[5]))
    return lay


def type_size_align(lay, items, t):
    k = t[0]
    if k == "prim":
        return PSIZE[t[1]], PSIZE[t[1]]
    if k == "enum":
        return 4, 4
    if k == "struct":
        return lay["size"][t[1]]
    if k == "opt":
        if t[1][0] in ("ref", "box"):
            return 4, 4
        _, s, a = lay["opt"][oracle_type(t[1]).replace(" ", "")]
        return s, a
    if k in ("ref", "box"):
        return 4, 4
    if k in ("slice", "str"):
        return 8, 4
    raise ValueError(t)


def leaves(lay, items, t, base, value, out):
    """append (offset, size, kind, payload) leaves of `value` of type t placed at `base`"""
    k = t[0]
    if k == "prim":
        out.append((base, PSIZE[t[1]], "prim", (t[1], value)))
    elif k == "enum":
        out.append((base, 4, "enum", ENUM_VALUES[t[1]][value["variant"]]))
    elif k == "struct":
        s = next(i for i in items if i["name"] == t[1])
        for f in s["fields"]:
            leaves(lay, items, f[1], base + lay["off"][(t[1], f[0])], value["fields"][f[0]], out)
    elif k == "opt":
        if t[1][0] in ("ref", "box"):
            out.append((base, 4, "ptr", 0 if value["k"] == "none" else value["ptr"]))
        else:
            flag_off = lay["opt"][oracle_type(t[1]).replace(" ", "")][0]
            if value["k"] == "none":
                out.append((base + flag_off, 1, "flag", 0))
            else:
                leaves(lay, items, t[1], base, value, out)
                out.append((base + flag_off, 1, "flag", 1))
    elif k in ("ref", "box"):
        out.append((base, 4, "ptr", value["ptr"]))
    elif k in ("slice", "str"):
        out.append((base, 8, "slice", (t, value)))
    else:
        raise ValueError(t)


def prim_bytes(p, v):
    if p in ("i64", "u64"):
        n = int(v["v"])
        return (n & (2 ** 64 - 1)).to_bytes(8, "little")
    if p == "f32":
        return pystruct.pack("<I", v["bits"])
    if p == "f64":
        return pystruct.pack("<II", v["lo"], v["hi"])
    if p == "bool":
        return b"\x01" if v["v"] else b"\x00"
    size = PSIZE[p]
    return (v["v"] & (2 ** (8 * size) - 1)).to_bytes(size, "little")


def slice_payload(t, value):
    """(element size, bytes, length in elements)"""
    if t[0] == "str":
        if t[2] == "str16":
            b = value["v"].encode("utf-16-le")
            return 2, b, len(b) // 2
        b = value["v"].encode("utf-8")
        return 1, b, len(b)
    e = t[3]
    es = PSIZE[e]
    out = b""
    for x in value["v"]:
        if e == "f32":
            out += pystruct.pack("<f", x)
        elif e == "f64":
            out += pystruct.pack("<d", x)
        else:
            out += (int(x) & (2 ** (8 * es) - 1)).to_bytes(es, "little")
    return es, out, len(value["v"])


def wraps_primitive(items, s):
    """the JS backend's rule: a struct whose only field is a primitive, or a struct that itself wraps a primitive"""
    if len(s["fields"]) != 1:
        return False
    t = s["fields"][0][1]
    if t[0] == "prim":
        return True
    if t[0] == "struct":
        return wraps_primitive(items, next(i for i in items if i["name"] == t[1]))
    return False


def innermost(items, s, v):
    t = s["fields"][0][1]
    inner = v["fields"][s["fields"][0][0]]
    if t[0] == "prim":
        return inner
    return innermost(items, next(i for i in items if i["name"] == t[1]), inner)


def shape_of(items, t):
    k = t[0]
    if k == "prim":
        return {"k": "prim", "p": t[1]}
    if k == "enum":
        return {"k": "enum", "ty": t[1]}
    if k == "struct":
        s = next(i for i in items if i["name"] == t[1])
        return {"k": "struct", "ty": t[1], "fields": [[f[0], shape_of(items, f[1])] for f in s["fields"]]}
    if k == "opt":
        if t[1][0] in ("ref", "box"):
            return {"k": "optopaque"}
        return {"k": "opt", "inner": shape_of(items, t[1])}
    if k in ("ref", "box"):
        return {"k": "opaque"}
    if k == "slice":
        return {"k": "slice", "elem": t[3]}
    return {"k": "str"}


def expected_dump(items, t, v):
    """what node's dump() must produce after _fromFFI"""
    k = t[0]
    if k == "prim":
        p = t[1]
        if p in ("i64", "u64"):
            return {"big": v["v"], "isBig": True}
        if p == "f32":
            return {"f32": v["bits"]}
        if p == "f64":
            return {"f64": [v["hi"], v["lo"]]}
        if p == "bool":
            return {"bool": v["v"], "isBool": True}
        return {"int": v["v"]}
    if k == "enum":
        return {"variant": v["variant"], "ffi": ENUM_VALUES[t[1]][v["variant"]]}
    if k == "struct":
        s = next(i for i in items if i["name"] == t[1])
        return {"fields": {f[0]: expected_dump(items, f[1], v["fields"][f[0]]) for f in s["fields"]}}
    if k == "opt":
        if v["k"] == "none":
            return {"none": True}
        if t[1][0] in ("ref", "box"):
            return {"some": {"ptr": v["ptr"]}}
        return {"some": expected_dump(items, t[1], v)}
    if k in ("ref", "box"):
        return {"ptr": v["ptr"]}
    if k == "slice":
        e = t[3]
        if e in ("i64", "u64"):
            return {"list": [str(x) for x in v["v"]]}
        return {"list": list(v["v"])}
    return {"str": v["v"]}


# ---- legacy flattening model (docs/wasm_abi_quirks.md) -------------------------------------------
def scalar_count(lay, items, t):
    """number of transitive scalars, or None if the type contains a union (memory class)"""
    k = t[0]
    if k in ("prim", "enum", "ref", "box"):
        return 1
    if k in ("slice", "str"):
        return 2
    if k == "opt":
        return 1 if t[1][0] in ("ref", "box") else None
    if k == "struct":
        s = next(i for i in items if i["name"] == t[1])
        tot = 0
        for f in s["fields"]:
            c = scalar_count(lay, items, f[1])
            if c is None:
                return None
            tot += c
        return tot
    raise ValueError(t)


def flat_value(t, v):
    k = t[0]
    if k == "prim":
        p = t[1]
        if p in ("i64", "u64"):
            return [{"big": v["v"]}]
        if p == "f32":
            return [{"f32": v["bits"]}]
        if p == "f64":
            return [{"f64": [v["hi"], v["lo"]]}]
        if p == "bool":
            return [{"bool": v["v"]}]
        return [v["v"]]
    if k == "enum":
        return [ENUM_VALUES[t[1]][v["variant"]]]
    if k in ("ref", "box"):
        return [v["ptr"]]
    raise ValueError(t)


def flatten_legacy(lay, items, t, v, padded):
    """argument list for a value passed by value under the legacy ABI; padding slots are the marker 'PAD'"""
    k = t[0]
    if k in ("prim", "enum", "ref", "box"):
        return flat_value(t, v)
    if k in ("slice", "str"):
        return ["SLICEPTR", slice_payload(t, v)[2]]
    if k == "opt":
        if t[1][0] in ("ref", "box"):
            return [0 if v["k"] == "none" else v["ptr"]]
        size, align = type_size_align(lay, items, t[1])
        n = size // align
        # union: size/align slots of `align` bytes, then the flag, then flag padding (u8 slots)
        return ["UNION:%d:%d" % (n, align)] + [{"flag": 0 if v["k"] == "none" else 1}] + ["PAD"] * (align - 1)
    if k == "struct":
        s = next(i for i in items if i["name"] == t[1])
        out = []
        fs = s["fields"]
        ssize, salign = lay["size"][t[1]]
        for i, f in enumerate(fs):
            out += flatten_legacy(lay, items, f[1], v["fields"][f[0]], padded)
            if padded:
                fsize, falign = type_size_align(lay, items, f[1])
                end = lay["off"][(t[1], f[0])] + fsize
                nxt = lay["off"][(t[1], fs[i + 1][0])] if i + 1 < len(fs) else ssize
                pad = nxt - end
                if pad:
                    out += ["PAD"] * (pad // falign)
        return out
    raise ValueError(t)


def compare_args(model, got):
    """model list with markers vs recorded JS args (serialized). Returns None or message."""
    gi = 0
    for m in model:
        if isinstance(m, str) and m.startswith("UNION:"):
            n = int(m.split(":")[1])
            gi += n
            continue
        if gi >= len(got):
            return "too few arguments: model %s, got %s" % (model, got)
        g = got[gi]
        gi += 1
        if m == "PAD":
            if g not in (0, {"big": "0"}) and g != {"bool": False}:
                return "padding slot holds %r" % (g,)
        elif m == "SLICEPTR":
            pass
        elif isinstance(m, dict) and "flag" in m:
            if g not in (m["flag"], {"bool": bool(m["flag"])}):
                return "option flag slot holds %r, expected %r" % (g, m["flag"])
        elif isinstance(m, dict) and "big" in m:
            if g != {"big": str(int(m["big"]))} and g != {"big": str(int(m["big"]) & (2 ** 64 - 1))} and g != {"big": str(int(m["big"]) - 2 ** 64)}:
                return "argument %r, expected 64-bit %s" % (g, m["big"])
        elif isinstance(m, dict) and "bool" in m:
            if g not in (m["bool"], int(m["bool"]), {"bool": m["bool"]}):
                return "argument %r, expected bool %s" % (g, m["bool"])
        elif isinstance(m, dict) and ("f32" in m or "f64" in m):
            if "f32" in m:
                want = pystruct.unpack("<f", pystruct.pack("<I", m["f32"]))[0]
            else:
                want = pystruct.unpack("<d", pystruct.pack("<II", m["f64"][1], m["f64"][0]))[0]
            gv = float(g["num"].replace("Infinity", "inf")) if isinstance(g, dict) and "num" in g else g
            if not isinstance(gv, (int, float)) or float(gv) != want:
                return "argument %r, expected the float %r" % (g, want)
        else:
            if g != m and not (isinstance(g, int) and isinstance(m, int) and (g - m) % (2 ** 32) == 0):
                return "argument %r, expected %r" % (g, m)
    if gi != len(got):
        return "too many arguments: model %s (%d slots), got %d: %s" % (model, gi, len(got), got)
    return None


# ---- the check -----------------------------------------------------------------------------------
def build_program(b):
    items = []
    op = {"kind": "opaque", "name": "Op", "attrs": [], "lifetimes": [], "impls": [{"attrs": [], "methods": [
        {"name": "dv_new", "attrs": [], "lifetimes": [], "self": None, "params": [], "ret": ["box", "Op", []]}]}]}
    items.append(op)
    for en, vs in ENUMS.items():
        items.append({"kind": "enum", "name": en, "attrs": [], "variants": [[v, d, []] for v, d in vs], "impls": []})
    for s in b["items"]:
        s2 = json.loads(json.dumps(s))
        lts = ["a"] if s["lifetimes"] else []
        ms = [{"name": "dv_make", "attrs": [], "lifetimes": [], "self": None, "params": [], "ret": ["struct", s["name"], lts]}]
        if not s["out"]:
            ms.append({"name": "dv_take", "attrs": [], "lifetimes": [], "self": None, "params": [["v", ["struct", s["name"], [None] * len(lts)], []]], "ret": None})
            # the struct as an optional parameter: under the spec ABI a pointer to {payload, is_ok}
            ms.append({"name": "dv_take_opt", "attrs": [], "lifetimes": [], "self": None, "params": [["v", ["opt", ["struct", s["name"], [None] * len(lts)], "std"], []]], "ret": None})
        s2["impls"] = [{"attrs": [], "methods": ms}]
        items.append(s2)
    for kind, i, a, b_ in ret_pairs(b["items"]):
        ret = (["result", ["struct", a, []], ["struct", b_, []], "std"] if kind == "res" else
               ["result", ["unit"], ["struct", b_, []], "std"] if kind == "resunit" else ["opt", ["struct", a, []], "std"])
        op["impls"][0]["methods"].append({"name": "dv_%s_%d" % (kind, i), "attrs": [], "lifetimes": [], "self": None, "params": [], "ret": ret})
    prog = {"modules": [{"name": "ffi", "attrs": [], "uses": [], "items": items}], "extra_top": [], "config_attrs": []}
    ir.default_order(prog["modules"][0])
    return prog


def has_padding(lay, items, s):
    size, _ = lay["size"][s["name"]]
    interior = trailing = False
    fs = s["fields"]
    for i, f in enumerate(fs):
        fsize, _ = type_size_align(lay, items, f[1])
        end = lay["off"][(s["name"], f[0])] + fsize
        nxt = lay["off"][(s["name"], fs[i + 1][0])] if i + 1 < len(fs) else size
        if nxt > end:
            if i + 1 < len(fs):
                interior = True
            else:
                trailing = True
    return interior, trailing


def nontrivial(lay, items, s):
    interior, trailing = has_padding(lay, items, s)
    nested = any(f[1][0] == "struct" for f in s["fields"]) and len(s["fields"]) > 1
    opt = any(f[1][0] == "opt" and f[1][1][0] not in ("ref", "box") for f in s["fields"])
    return (interior and trailing) or nested or opt


def check_batch(art, work, b):
    """returns list of (struct, value index, ok, kind, message), labels"""
    items = b["items"]
    lay = run_oracle(art, work, items)
    prog = build_program(b)
    src = ir.render_program(prog)
    entry = os.path.join(work, "lib.rs")
    open(entry, "w").write(src)
    r = tool.run_backend(art, "js", entry, os.path.join(work, "js"), config=["js.abi=" + b["abi"]])
    if not r.ok:
        return None, "js backend did not accept the struct batch (%s): %s" % (r.classify(), r.stderr[-400:]), src
    compilers.install_js_stub(r.outdir)
    spec = {"abi": b["abi"], "structs": []}
    plan = {}
    for s in items:
        t = ["struct", s["name"], []]
        size, align = lay["size"][s["name"]]
        cases = []
        sl_leaves = None
        for v in b["values"][s["name"]]:
            lv = []
            leaves(lay, items, t, 0, v, lv)
            buf = bytearray(b"\xEE" * size)
            pointees = []
            for off, sz, kind, payload in lv:
                if kind == "prim":
                    buf[off:off + sz] = prim_bytes(payload[0], payload[1])
                elif kind == "enum":
                    buf[off:off + 4] = (payload & 0xFFFFFFFF).to_bytes(4, "little")
                elif kind == "ptr":
                    buf[off:off + 4] = payload.to_bytes(4, "little")
                elif kind == "flag":
                    buf[off] = payload
                elif kind == "slice":
                    es, data, n = slice_payload(payload[0], payload[1])
                    buf[off:off + 4] = b"\0\0\0\0"
                    buf[off + 4:off + 8] = n.to_bytes(4, "little")
                    pointees.append({"off": off, "len": n, "bytesHex": data.hex(), "nullPtr": False})
            case = {"value": v, "readBytesHex": bytes(buf).hex(), "readPointees": pointees}
            if wraps_primitive(items, s):
                case["readPrimitive"] = innermost(items, s, v)
            cases.append(case)
            plan.setdefault(s["name"], []).append((v, lv, bytes(buf)))
        # static slice leaf positions (for the write direction): every slice/str field position, recursively, only when not under a None option
        spec["structs"].append({"name": s["name"], "size": size, "align": align, "shape": shape_of(items, t), "cases": cases,
                                "sliceLeaves": [], "out": s["out"], "wrapsPrimitive": wraps_primitive(items, s)})
    # slice leaves depend on the value (options): put per-case lists into the struct entry as the union of offsets
    for se in spec["structs"]:
        offs = {}
        for v, lv, _ in plan[se["name"]]:
            for off, sz, kind, payload in lv:
                if kind == "slice":
                    offs[off] = slice_payload(payload[0], payload[1])[0]
        se["sliceLeaves"] = [{"off": o, "esize": e} for o, e in sorted(offs.items())]
    spec["returns"] = []
    for kind, i, a, b_ in ret_pairs(items):
        flag_off, total, ualign = lay["ret"][(kind, i)]
        sa = lay["size"][a][0] if a else 0
        sb = lay["size"][b_][0] if b_ else 0
        spec["returns"].append({"kind": kind, "index": i, "method": "dv%s%d" % ({"res": "Res", "resunit": "Resunit", "optret": "Optret"}[kind], i), "sym": "Op_dv_%s_%d" % (kind, i),
                                "flagOff": flag_off, "total": total, "align": ualign, "maxPayload": max(sa, sb),
                                "okBytesHex": plan[a][0][2].hex() if a else "", "errBytesHex": plan[b_][0][2].hex() if b_ else ""})
    sp = os.path.join(work, "spec.json")
    json.dump(spec, open(sp, "w"))
    rc, so, se_ = compilers.node_run(os.path.join(compilers.NODE_DIR, "struct-layout.mjs"), [r.outdir, sp])
    if rc != 0:
        return None, "node driver failed: " + (so + se_)[-600:], src
    res = json.loads(so.strip().split("\n")[-1])
    results = []
    for s in items:
        name = s["name"]
        t = ["struct", name, []]
        size, align = lay["size"][name]
        R = res.get(name, {})
        nt = nontrivial(lay, items, s)
        if "error" in R:
            results.append((s, 0, False, "import", "module %s.mjs failed to load: %s" % (name, R["error"]), nt))
            continue
        for ci, (v, lv, buf) in enumerate(plan[name]):
            rc_ = R["cases"][ci]
            msgs = []
            # (a) written bytes
            if "writeError" in rc_:
                msgs.append(("write", "_writeToArrayBuffer threw: " + rc_["writeError"]))
            elif not rc_.get("writeSkipped"):
                w = bytes.fromhex(rc_["written"])
                for off, sz, kind, payload in lv:
                    if kind == "slice":
                        es, data, n = slice_payload(payload[0], payload[1])
                        gl = int.from_bytes(w[off + 4:off + 8], "little")
                        if gl != n:
                            msgs.append(("write", "slice length at offset %d written as %d, expected %d" % (off, gl, n)))
                        pe = next((p for p in rc_["pointees"] if p["off"] == off), None)
                        if n and pe and bytes.fromhex(pe["bytes"]) != data:
                            msgs.append(("write", "slice at offset %d points to bytes %s, expected %s" % (off, pe["bytes"], data.hex())))
                        continue
                    if w[off:off + sz] != buf[off:off + sz]:
                        msgs.append(("write", "bytes at offset %d..%d are %s, Rust's repr(C) layout has %s (field kind %s)" % (off, off + sz, w[off:off + sz].hex(), buf[off:off + sz].hex(), kind)))
                        break
                if w[size:size + 64] != b"\xEE" * 64:
                    msgs.append(("write", "bytes beyond the struct's size %d were written" % size))
            # (b) read back
            if "readError" in rc_:
                msgs.append(("read", "_fromFFI threw: " + rc_["readError"]))
            else:
                want = expected_dump(items, t, v)
                if rc_["read"] != want:
                    msgs.append(("read", "values read back differ: got %s expected %s" % (json.dumps(rc_["read"])[:400], json.dumps(want)[:400])))
            # (c) _intoFFI
            if "intoError" in rc_:
                msgs.append(("into", "_intoFFI threw: " + rc_["intoError"]))
            elif "into" in rc_ and b["abi"] == "spec" and isinstance(rc_["into"], dict) and not wraps_primitive(items, s):
                if [size, align] not in rc_["intoAllocs"]:
                    msgs.append(("size", "_intoFFI allocated %s, the struct needs size %d align %d" % (rc_["intoAllocs"][:3], size, align)))
            # (e) by-value argument
            if not s["out"]:
                if "takeError" in rc_:
                    msgs.append(("take", "passing the struct by value threw: " + rc_["takeError"]))
                elif rc_.get("takeArgs") is not None:
                    sc = scalar_count(lay, items, t)
                    if b["abi"] == "legacy":
                        model = flatten_legacy(lay, items, t, v, padded=(sc is None or sc > 2))
                        m = compare_args(model, rc_["takeArgs"])
                        if m:
                            msgs.append(("flatten", "legacy argument list %s does not match the wasm ABI model %s: %s" % (json.dumps(rc_["takeArgs"])[:300], json.dumps(model)[:300], m)))
                    elif sc == 1:
                        model = flatten_legacy(lay, items, t, v, padded=False)
                        m = compare_args(model, rc_["takeArgs"])
                        if m:
                            msgs.append(("param-abi", "a by-value %s (an aggregate holding a single scalar) is passed as that scalar in the wasm C ABI, but the binding passes %s: %s" % (name, json.dumps(rc_["takeArgs"])[:120], m)))
                    else:
                        if len(rc_["takeArgs"]) != 1:
                            msgs.append(("flatten", "spec ABI passes %d arguments for a by-value struct: %s" % (len(rc_["takeArgs"]), json.dumps(rc_["takeArgs"])[:200])))
                        elif (sc is None or sc > 1) and not wraps_primitive(items, s) and [size, align] not in rc_["takeAllocs"]:
                            msgs.append(("size", "by-value struct (spec ABI) was not placed in a buffer of size %d align %d (allocations %s)" % (size, align, rc_["takeAllocs"][:3])))
            # (f) optional by-value argument (spec ABI): one pointer argument; the payload bytes and the is_ok byte right behind them
            if not s["out"] and b["abi"] == "spec" and not any(k_ == "slice" for _, _, k_, _ in lv):
                for which, flag in (("takeOptSome", 1), ("takeOptNone", 0)):
                    got = rc_.get(which)
                    if got is None:
                        continue
                    if "error" in got:
                        msgs.append(("opt-param", "passing Option<%s> (%s) threw: %s" % (name, which[7:], got["error"])))
                        continue
                    a = got["args"]
                    if len(a) != 1 or not isinstance(a[0], int) or a[0] <= 0 or a[0] % align != 0:
                        msgs.append(("opt-param", "Option<%s> (%s) must be passed as one pointer to {payload, is_ok} aligned to %d, the export received %s" % (name, which[7:], align, json.dumps(a)[:120])))
                        continue
                    mem = bytes.fromhex(got["bytes"])
                    if mem[size] != flag:
                        msgs.append(("opt-param", "Option<%s> (%s): the is_ok byte behind the %d-byte payload is %d, expected %d" % (name, which[7:], size, mem[size], flag)))
                    elif flag:
                        for off, sz, kind, payload in lv:
                            if mem[off:off + sz] != buf[off:off + sz]:
                                msgs.append(("opt-param", "Option<%s> (Some): payload bytes at offset %d..%d are %s, Rust's repr(C) layout has %s" % (name, off, off + sz, mem[off:off + sz].hex(), buf[off:off + sz].hex())))
                                break
                    need = (size + 1 + align - 1) // align * align
                    if not any(al[0] >= need for al in got["allocs"]):
                        msgs.append(("opt-param", "Option<%s>: no allocation of at least %d bytes (payload %d + flag, aligned to %d) was made: %s" % (name, need, size, align, got["allocs"][:3])))
            if msgs:
                for kind, m in msgs[:2]:
                    results.append((s, ci, False, kind, m, nt))
            else:
                results.append((s, ci, True, "ok", "", nt))
        # (d) receive buffer
        if "makeAllocs" in R:
            sc = scalar_count(lay, items, t)
            if (sc is None or sc > 1) and [size, align] not in R["makeAllocs"]:
                results.append((s, -1, False, "size", "receive buffer for a returned %s is allocated as %s, the struct has size %d align %d" % (name, R["makeAllocs"][:3], size, align), nt))
            elif sc == 1 and R.get("makeArgs"):
                results.append((s, -1, False, "return-abi", "a returned %s (an aggregate holding a single scalar) is a direct scalar return in the wasm C ABI, but the binding passes a receive-buffer argument %s" % (name, R["makeArgs"]), nt))
            else:
                results.append((s, -1, True, "ok", "", nt))
    # (g) receive buffers of Result<Sa, Sb> / Option<Sa> returns: size, alignment and the position of the is_ok byte
    by_name = {s_["name"]: s_ for s_ in items}
    for rs, rr in zip(spec["returns"], res.get("__returns", [])):
        kind, i, a, b_ = next(x for x in ret_pairs(items) if x[0] == rs["kind"] and x[1] == rs["index"])
        s_ = by_name[a or b_]
        nt = nontrivial(lay, items, s_)
        what = ("Result<%s, %s>" % (a or "()", b_)) if kind in ("res", "resunit") else ("Option<%s>" % a)
        msg = None
        if (a and any(k_ == "slice" for _, _, k_, _ in plan[a][0][1])) or (b_ and any(k_ == "slice" for _, _, k_, _ in plan[b_][0][1])):
            results.append((s_, -2, True, "ok", "", False))      # slices need pointees: not part of this leg
            continue
        if "error" in rr:
            msg = "calling a method returning %s failed in the harness: %s" % (what, rr["error"])
        elif not any(al[0] >= rs["total"] and al[1] % rs["align"] == 0 for al in rr["allocs"]):
            msg = "receive buffer for a returned %s: allocations %s, Rust writes %d bytes aligned to %d (is_ok at offset %d)" % (what, rr["allocs"][:3], rs["total"], rs["align"], rs["flagOff"])
        elif rr["okRun"] != ("object" if a else "null"):
            msg = "a returned %s with is_ok = 1 at offset %d came back as %s" % (what, rs["flagOff"], rr["okRun"])
        elif rr["errRun"] != ("threw-with-cause" if kind in ("res", "resunit") else "null"):
            msg = "a returned %s with is_ok = 0 at offset %d (padding bytes inside the union set to 1) came back as %s" % (what, rs["flagOff"], rr["errRun"])
        results.append((s_, -2, msg is None, "ok" if msg is None else "return-buffer", msg or "", nt))
    return results, None, src


def single(b, sname):
    """the batch reduced to one struct and what it depends on"""
    items = b["items"]
    need = set()

    def dep(n):
        if n in need:
            return
        need.add(n)
        s = next(i for i in items if i["name"] == n)
        for f in s["fields"]:
            for x in ir.walk(f[1]):
                if x[0] == "struct":
                    dep(x[1])
    dep(sname)
    return {"items": [i for i in items if i["name"] in need], "abi": b["abi"], "values": {k: v for k, v in b["values"].items() if k in need}}


def worker(widx, seed, params):
    art = build.ensure_repo_artifacts()
    work = build.workdir("c08-w%d" % widx)
    acc = pbt.Acc("C08", max_violations=6)
    known = {f["signature"] for f in findings.known_for("C08")}

    def body(b):
        if acc.full():
            return
        results, err, src = check_batch(art, work, b)
        if results is None:
            acc.violation(err + "\n--- lib.rs ---\n" + src, {"batch": b}, signature="batch|" + err.split(":")[0][:40])
            return
        for s, ci, ok, kind, msg, nt in results:
            acc.case([ir.render_item(s), b["abi"], ci, b["values"][s["name"]][ci] if ci >= 0 else "recv"], nt, ["abi:" + b["abi"], "check:" + kind],
                     sample={"abi": b["abi"], "struct": ir.render_item(s), "value": b["values"][s["name"]][ci] if ci >= 0 else None})
            if not ok:
                import re as _re
                sig = "%s|%s|%s" % (b["abi"], kind, _re.sub(r"S\d+|\d+", "N", msg[:60]))
                if sig in known:
                    acc.extra["known:" + sig] += 1
                    continue
                one = single(b, s["name"])
                acc.violation("js.abi=%s struct %s: %s\n--- struct ---\n%s\n--- value ---\n%s" % (b["abi"], s["name"], msg, ir.render_item(s), json.dumps(b["values"][s["name"]][ci] if ci >= 0 else None)[:800]),
                              {"batch": one}, signature=sig)

    if widx == 0:
        # dedicated probes for the known findings: a struct holding a single enum, under both ABIs
        for abi_mode in ("legacy", "spec"):
            body({"items": [{"kind": "struct", "name": "S0", "attrs": [], "out": False, "lifetimes": [], "fields": [["a", ["enum", "EnA"], []]], "impls": []}],
                  "abi": abi_mode, "values": {"S0": [{"k": "struct", "ty": "S0", "fields": {"a": {"k": "enum", "ty": "EnA", "variant": "Bb"}}, "asObject": False}]}})
    pbt.explore(batch(), body, params["n"], seed)
    build.rm_workdir(work)
    return acc.result()


def run(ctx):
    n = 45 if ctx.quick else 600
    m = pbt.run_workers("checks.c08", "worker", 14, ctx.seed, {"n": n})
    known_seen = []
    for f in findings.known_for("C08"):
        if m["extra"].get("known:" + f["signature"]):
            known_seen.append(f["what"])
    cov = {"evaluations": m["evaluations"], "distinct_nontrivial": m["distinct_nontrivial"], "rule": RULE, "samples": m["samples"], "labels": m["labels"], "extra": m["extra"]}
    return {"coverage": cov, "assumptions": ASSUME, "violations": m["violations"], "known_seen": known_seen}


def replay(ctx):
    art = build.ensure_repo_artifacts()
    c = json.load(open(ctx.replay))["case"]
    work = build.workdir("c08-replay")
    results, err, src = check_batch(art, work, c["batch"])
    build.rm_workdir(work)
    v = []
    if results is None:
        print(err)
        return {"violations": [{"replay": ctx.replay, "message": err}]}
    for s, ci, ok, kind, msg, nt in results:
        if not ok:
            print(s["name"], kind, msg)
            v.append({"replay": ctx.replay, "message": msg})
    return {"violations": v}
