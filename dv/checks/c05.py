"""C05 — the lowering gate accepts exactly the documented FFI-safe shapes (valid programs + single-fault mutants)."""
import copy, json, os
from hypothesis import strategies as st
from .. import build, pbt, tool, probe as probe_mod, findings, reduce as red
from ..gen import ir, strategies as S

RULE = ("Hypothesis-generated programs valid by construction for a drawn feature profile (option/callbacks/static_slices flags) must lower without errors "
        "(hir::TypeContext::from_syn via the public API); single-fault mutants (one documented rule violated at a drawn position: parameter, self, return, "
        "Option payload, Result arm, struct field, out-struct field) must be rejected with at least one error whose context is the planted Type::method "
        "(or the type, for field faults). A sample is cross-checked against the diplomat-tool binary for the real backend profiles. "
        "Non-trivial: a mutant whose fault sits at depth >= 2 (inside Option / Result arm) or in return/out position, or a valid program with >= 5 types. "
        "Distinct = distinct (program, profile, fault).")
ASSUME = [
    "programs rustc itself rejects are out of domain; elided return lifetimes are only planted where rustc's elision rules accept them",
    "shapes on which the book is silent (owned slice returns, Option<slice> returns, DiplomatOption<slice> fields, Rust `char`) are not asserted",
    "profiles are synthetic flag combinations (all 8 combinations of option/callbacks/static_slices); the seven real backend tables are reached through the binary cross-check",
]

FLAGS = ["option", "callbacks", "static_slices"]


def support_of(p):
    s = {k: False for k in probe_mod.ALL_FLAGS}
    for k in FLAGS:
        s[k] = bool(p[k])
    return s


def pick_opaque(prog, draw, no_lt=True):
    c = [it for _, it in ir.all_items(prog) if it["kind"] == "opaque" and not (no_lt and it.get("lifetimes"))]
    return draw(st.sampled_from(c)) if c else None


def pick_struct(prog, draw, out=False):
    c = [it for _, it in ir.all_items(prog) if it["kind"] == "struct" and bool(it.get("out")) == out and it["fields"] and not it.get("lifetimes")]
    return draw(st.sampled_from(c)) if c else None


def pick_enum(prog, draw):
    c = [it for _, it in ir.all_items(prog) if it["kind"] == "enum"]
    return draw(st.sampled_from(c)) if c else None


def methods_of(prog):
    return [(mod, it, impl, m) for mod, it, impl, m in ir.all_methods(prog)]


def add_use(prog, mod, name):
    """make `name` visible in module `mod`"""
    for m2 in prog["modules"]:
        if any(it["name"] == name for it in m2["items"]):
            if m2 is not mod:
                u = "crate::%s::%s" % (m2["name"], name)
                if u not in mod["uses"]:
                    mod["uses"].append(u)


# each fault: (rule id, position, function(prog, draw) -> (ctx, depth) or None). The function mutates prog in place.
def _insert_param(prog, draw, ty_fn, rule):
    ms = methods_of(prog)
    if not ms:
        return None
    mod, it, impl, m = draw(st.sampled_from(ms))
    ty = ty_fn(mod)
    if ty is None:
        return None
    nparams = len([q for q in m["params"] if q[1][0] != "write"])
    pos = draw(st.integers(0, nparams))
    m["params"].insert(pos, ["dv_fault", ty, []])
    return "%s::%s" % (it["name"], m["name"])


def _set_return(prog, draw, ty_fn, wrap):
    ms = [x for x in methods_of(prog) if not any(q[1][0] == "write" for q in x[3]["params"])]
    if not ms:
        return None
    mod, it, impl, m = draw(st.sampled_from(ms))
    ty = ty_fn(mod)
    if ty is None:
        return None
    if wrap == "ok":
        ty = ["result", ty, ["unit"], "std"]
    elif wrap == "err":
        ty = ["result", ["unit"], ty, "std"]
    m["ret"] = ty
    red._fix_method_lifetimes(it, m)
    return "%s::%s" % (it["name"], m["name"])


def raw(s):
    return ["raw", s]


def make_faults():
    F = []

    def param_fault(rule, build_ty, depth=1):
        def f(prog, draw):
            def ty_fn(mod):
                return build_ty(prog, draw, mod)
            ctx = _insert_param(prog, draw, ty_fn, rule)
            return (ctx, depth) if ctx else None
        F.append((rule, "param", f))

    def ret_fault(rule, build_ty, wraps=("plain", "ok", "err")):
        for w in wraps:
            def f(prog, draw, w=w):
                def ty_fn(mod):
                    return build_ty(prog, draw, mod)
                ctx = _set_return(prog, draw, ty_fn, w)
                return (ctx, 1 if w == "plain" else 2) if ctx else None
            F.append((rule, "return-" + w, f))

    def with_opaque(fn):
        def b(prog, draw, mod):
            o = pick_opaque(prog, draw)
            if not o:
                return None
            add_use(prog, mod, o["name"])
            return fn(o["name"])
        return b

    def with_struct(fn, out=False):
        def b(prog, draw, mod):
            s_ = pick_struct(prog, draw, out)
            if not s_:
                return None
            add_use(prog, mod, s_["name"])
            return fn(s_["name"])
        return b

    def with_enum(fn):
        def b(prog, draw, mod):
            e = pick_enum(prog, draw)
            if not e:
                return None
            add_use(prog, mod, e["name"])
            return fn(e["name"])
        return b

    const = lambda t: (lambda prog, draw, mod: t)
    # inputs
    param_fault("owned-opaque-in-input", with_opaque(lambda n: ["box", n, []]))
    param_fault("opaque-by-value-in-input", with_opaque(lambda n: ["struct", n, []]))
    param_fault("option-of-opaque-by-value", with_opaque(lambda n: ["opt", ["struct", n, []], "std"]), depth=2)
    param_fault("option-box-in-input", with_opaque(lambda n: ["opt", ["box", n, []], "std"]), depth=2)
    param_fault("diplomat-option-of-ref", with_opaque(lambda n: ["opt", ["ref", None, False, n, []], "dip"]), depth=2)
    param_fault("out-struct-in-input", with_struct(lambda n: ["struct", n, []], out=True))
    param_fault("ref-to-struct", with_struct(lambda n: ["ref", None, False, n, []]))
    param_fault("option-ref-to-struct", with_struct(lambda n: ["opt", ["ref", None, False, n, []], "std"]), depth=2)
    param_fault("box-of-struct", with_struct(lambda n: ["box", n, []]))
    param_fault("ref-to-enum", with_enum(lambda n: ["ref", None, False, n, []]))
    param_fault("ref-to-primitive", const(raw("&u8")))
    param_fault("result-as-param", const(["result", ["prim", "u8"], ["unit"], "std"]))
    param_fault("option-of-result-as-param", const(["opt", ["result", ["prim", "u8"], ["unit"], "std"], "std"]), depth=2)
    param_fault("unit-as-param", const(["unit"]))
    param_fault("write-by-value", const(raw("DiplomatWrite")))
    # returns
    ret_fault("opaque-by-value-in-output", with_opaque(lambda n: ["struct", n, []]))
    ret_fault("ref-to-struct-in-output", with_struct(lambda n: ["ref", "static", False, n, []]))
    ret_fault("box-of-struct-in-output", with_struct(lambda n: ["box", n, []]))
    ret_fault("option-of-opaque-by-value-out", with_opaque(lambda n: ["opt", ["struct", n, []], "std"]), wraps=("plain",))
    ret_fault("nested-result", const(["result", ["prim", "u8"], ["unit"], "std"]), wraps=("ok", "err"))
    ret_fault("option-of-result", const(["opt", ["result", ["prim", "u8"], ["unit"], "std"], "std"]), wraps=("plain",))
    ret_fault("write-in-output", const(raw("DiplomatWrite")), wraps=("plain", "ok"))
    # a std Option of a non-pointer nested in a Result arm is not converted by the proc macro (only the top-level one is): DiplomatOption is required
    ret_fault("std-option-of-primitive-in-result-arm", const(["opt", ["prim", "u8"], "std"]), wraps=("ok", "err"))
    ret_fault("std-option-of-enum-in-result-arm", with_enum(lambda n: ["opt", ["enum", n], "std"]), wraps=("ok", "err"))
    # ... and neither is a std Option of a string or slice (a top-level Option<&str> return is fine)
    ret_fault("std-option-of-str-in-result-arm", const(["opt", ["str", "dvr", "str8", "std"], "std"]), wraps=("ok", "err"))
    ret_fault("std-option-of-slice-in-result-arm", const(["opt", ["slice", "dvr", False, "u8", "std"], "std"]), wraps=("ok", "err"))
    ret_fault("std-option-of-std-option-of-str", const(["opt", ["opt", ["str", "dvr", "str8", "std"], "std"], "std"]), wraps=("plain",))
    ret_fault("callback-in-output", const(["cb", [["prim", "u8"]], ["unit"], False]), wraps=("plain", "ok"))
    param_fault("result-returned-by-callback", const(["cb", [], ["result", ["prim", "u8"], ["unit"], "std"], False]), depth=2)

    # write placement
    def write_not_last(prog, draw):
        ms = [x for x in methods_of(prog) if x[3]["params"] and x[3]["params"][-1][1][0] != "write"]
        if not ms:
            return None
        mod, it, impl, m = draw(st.sampled_from(ms))
        pos = draw(st.integers(0, len(m["params"]) - 1))
        m["params"].insert(pos, ["dv_w", ["write"], []])
        return ("%s::%s" % (it["name"], m["name"]), 1)
    F.append(("write-not-last", "param", write_not_last))

    def two_writes(prog, draw):
        ms = [x for x in methods_of(prog) if x[3]["params"] and x[3]["params"][-1][1][0] == "write"]
        if not ms:
            return None
        mod, it, impl, m = draw(st.sampled_from(ms))
        m["params"].insert(len(m["params"]) - 1, ["dv_w", ["write"], []])
        return ("%s::%s" % (it["name"], m["name"]), 1)
    F.append(("two-writes", "param", two_writes))

    def write_with_value(prog, draw):
        """a method whose last parameter is a DiplomatWrite returns its string through it: besides the write it may only return (),
        Option<()> or Result<(), E> (book: writeable.md). Anything else would silently lose the write parameter in the bindings."""
        ms = [x for x in methods_of(prog) if not any(q[1][0] in ("write", "cb") for q in x[3]["params"])]
        if not ms:
            return None
        mod, it, impl, m = draw(st.sampled_from(ms))
        m["params"].append(["dv_w", ["write"], []])
        shape = draw(st.sampled_from(["prim", "optprim", "okprim"]))
        m["ret"] = {"prim": ["prim", "u8"], "optprim": ["opt", ["prim", "u8"], "std"], "okprim": ["result", ["prim", "u8"], ["unit"], "std"]}[shape]
        red._fix_method_lifetimes(it, m)
        return ("%s::%s" % (it["name"], m["name"]), 1), shape
    F.append(("write-with-value-return", "return", write_with_value))

    # self
    def opaque_self_by_value(prog, draw):
        ms = [x for x in methods_of(prog) if x[1]["kind"] == "opaque"]
        if not ms:
            return None
        mod, it, impl, m = draw(st.sampled_from(ms))
        m["self"] = ["val"]
        red._fix_method_lifetimes(it, m)
        return ("%s::%s" % (it["name"], m["name"]), 1)
    F.append(("opaque-self-by-value", "self", opaque_self_by_value))

    def struct_self_by_ref(prog, draw):
        ms = [x for x in methods_of(prog) if x[1]["kind"] == "struct" and not x[1].get("out") and x[1]["fields"]]
        if not ms:
            return None
        mod, it, impl, m = draw(st.sampled_from(ms))
        m["self"] = ["ref", None, draw(st.booleans())]
        return ("%s::%s" % (it["name"], m["name"]), 1)
    F.append(("struct-self-by-reference", "self", struct_self_by_ref))

    def enum_self_by_ref(prog, draw):
        """structs.md: structs and enums may have methods which capture `self` by value (only opaques live behind references)"""
        ms = [x for x in methods_of(prog) if x[1]["kind"] == "enum"]
        if not ms:
            return None
        mod, it, impl, m = draw(st.sampled_from(ms))
        m["self"] = ["ref", None, draw(st.booleans())]
        return ("%s::%s" % (it["name"], m["name"]), 1)
    F.append(("enum-self-by-reference", "self", enum_self_by_ref))

    def out_struct_self(prog, draw):
        ms = [x for x in methods_of(prog) if x[1]["kind"] == "struct" and x[1].get("out")]
        if not ms:
            return None
        mod, it, impl, m = draw(st.sampled_from(ms))
        m["self"] = ["val"]
        return ("%s::%s" % (it["name"], m["name"]), 1)
    F.append(("out-struct-as-self", "self", out_struct_self))

    # zero-sized struct
    def zst_arg(prog, draw):
        ms = methods_of(prog)
        if not ms:
            return None
        mod, it, impl, m = draw(st.sampled_from(ms))
        mod["items"].append({"kind": "struct", "name": "DvZst", "attrs": [], "out": False, "lifetimes": [], "fields": [], "impls": []})
        z = ["struct", "DvZst", []]
        # the zero-sized struct reaches the method directly, inside an Option, as a field of a by-value struct argument, or as
        # what a callback argument returns
        where = draw(st.sampled_from(["param", "param", "optparam", "dipoptparam", "field", "cbret"]))
        ctx = "%s::%s" % (it["name"], m["name"])
        if where == "param":
            m["params"].insert(0, ["dv_fault", z, []])
        elif where in ("optparam", "dipoptparam"):
            m["params"].insert(0, ["dv_fault", ["opt", z, "std" if where == "optparam" else "dip"], []])
        elif where == "field":
            mod["items"].append({"kind": "struct", "name": "DvZstHolder", "attrs": [], "out": False, "lifetimes": [], "fields": [["n", ["prim", "u8"], []], ["z", z, []]], "impls": []})
            m["params"].insert(0, ["dv_fault", ["struct", "DvZstHolder", []], []])
            ctx = "DvZstHolder"
        else:
            m["params"].insert(0, ["dv_fault", ["cb", [], z, False], []])
        ir.default_order(mod)
        return (ctx, 2 if where in ("optparam", "dipoptparam", "cbret") else 1), where
    F.append(("zero-sized-struct-argument", "param", zst_arg))

    # elided lifetime in return (one elision source: &self)
    def elided_return(prog, draw):
        ms = [x for x in methods_of(prog) if x[1]["kind"] == "opaque" and x[3]["self"] and x[3]["self"][0] == "ref"
              and not any(q[1][0] == "write" for q in x[3]["params"])]
        if not ms:
            return None
        mod, it, impl, m = draw(st.sampled_from(ms))
        o = pick_opaque(prog, draw)
        if not o:
            return None
        add_use(prog, mod, o["name"])
        m["self"] = ["ref", None, m["self"][2]]
        kind = draw(st.sampled_from(["ref", "optref", "slice", "str", "okref", "errref", "errref-write"]))
        t = {"ref": ["ref", None, False, o["name"], []], "optref": ["opt", ["ref", None, False, o["name"], []], "std"],
             "slice": ["slice", None, False, "u8", "std"], "str": ["str", None, "str8", "std"],
             "okref": ["result", ["ref", None, False, o["name"], []], ["unit"], "std"],
             "errref": ["result", ["unit"], ["ref", None, False, o["name"], []], "std"],
             "errref-write": ["result", ["unit"], ["ref", None, False, o["name"], []], "std"]}[kind]
        m["ret"] = t
        if kind == "errref-write":
            m["params"].append(["dv_w", ["write"], []])
        red._fix_method_lifetimes(it, m)
        return ("%s::%s" % (it["name"], m["name"]), 2 if kind in ("optref", "okref", "errref", "errref-write") else 1), kind
    F.append(("elided-lifetime-in-return", "return", elided_return))

    # elided lifetime in return, the single borrowed parameter being the elision source (methods of every kind of type)
    def elided_return_param(prog, draw):
        def borrows(t):
            # anything that could be a second elision source (rustc would call the elided return ambiguous) or carries a lifetime
            if t[0] in ("ref", "slice", "str", "strs", "cb", "write", "raw"):
                return True
            if t[0] == "opt":
                return borrows(t[1])
            if t[0] in ("struct", "box"):
                return bool(t[2])
            return bool(ir.type_lifetimes(t))
        ms = [x for x in methods_of(prog) if not (x[3]["self"] and x[3]["self"][0] == "ref") and not x[1].get("lifetimes")
              and not any(borrows(q[1]) for q in x[3]["params"])]
        if not ms:
            return None
        mod, it, impl, m = draw(st.sampled_from(ms))
        o = pick_opaque(prog, draw)
        if not o:
            return None
        add_use(prog, mod, o["name"])
        m["params"].insert(0, ["dv_src", ["ref", None, False, o["name"], []], []])
        m["ret"] = draw(st.sampled_from([["ref", None, False, o["name"], []], ["opt", ["ref", None, False, o["name"], []], "std"]]))
        red._fix_method_lifetimes(it, m)
        return ("%s::%s" % (it["name"], m["name"]), 2 if m["ret"][0] == "opt" else 1), it["kind"]
    F.append(("elided-lifetime-in-return-from-parameter", "return", elided_return_param))

    # dropped def-site bound
    def missing_bound(prog, draw):
        ms = [x for x in methods_of(prog) if not any(q[1][0] == "write" for q in x[3]["params"])]
        o = pick_opaque(prog, draw)
        if not ms or not o:
            return None
        mod, it, impl, m = draw(st.sampled_from(ms))
        add_use(prog, mod, o["name"])
        mod["items"].append({"kind": "struct", "name": "DvBounded", "attrs": [], "out": False, "lifetimes": [["x", []], ["y", ["x"]]],
                             "fields": [["p", ["ref", "x", False, o["name"], []], []], ["q", ["ref", "y", False, o["name"], []], []]], "impls": []})
        ir.default_order(mod)
        where = draw(st.sampled_from(["param", "optparam", "return", "okreturn", "errreturn"]))
        t = ["struct", "DvBounded", ["dva", "dvb"]]
        tl = [l[0] for l in it.get("lifetimes", [])]
        if where == "param":
            m["params"].insert(0, ["dv_fault", t, []])
        elif where == "optparam":
            m["params"].insert(0, ["dv_fault", ["opt", t, "std"], []])
        elif where == "return":
            m["ret"] = t
        elif where == "errreturn":
            m["ret"] = ["result", ["unit"], t, "std"]
        else:
            m["ret"] = ["result", t, ["unit"], "std"]
        red._fix_method_lifetimes(it, m)
        return ("%s::%s" % (it["name"], m["name"]), 2 if where in ("optparam", "okreturn", "errreturn") else 1), where
    F.append(("missing-def-site-bound", "lifetime", missing_bound))

    def self_ref_missing_bound(prog, draw):
        """`&'a Self` inside `impl<'b> Foo<'b>` is `&'a Foo<'b>` and implies 'b: 'a; with no `&'a self` receiver and no declared bound
        nothing spells it out on the method"""
        ms = [x for x in methods_of(prog) if x[1]["kind"] == "opaque" and x[1].get("lifetimes")
              and not (x[3]["self"] and x[3]["self"][0] == "ref" and x[3]["self"][1])]
        if not ms:
            # no lifetime-generic opaque with a suitable method: plant one
            mod = prog["modules"][0]
            it = {"kind": "opaque", "name": "DvSelfRef", "attrs": [], "lifetimes": [["x", []]],
                  "impls": [{"attrs": [], "methods": [{"name": "dv_m", "attrs": [], "lifetimes": [], "self": None, "params": [], "ret": ["prim", "bool"], "body": None}]}]}
            mod["items"].append(it)
            ir.default_order(mod)
            ms = [(mod, it, it["impls"][0], it["impls"][0]["methods"][0])]
        mod, it, impl, m = draw(st.sampled_from(ms))
        tl = [l[0] for l in it["lifetimes"]]
        t = ["ref", "dva", False, it["name"], list(tl), "Self"]
        where = draw(st.sampled_from(["param", "optparam"]))
        m["params"].insert(0, ["dv_fault", t if where == "param" else ["opt", t, "std"], []])
        red._fix_method_lifetimes(it, m)
        return ("%s::%s" % (it["name"], m["name"]), 2 if where == "optparam" else 1), where
    F.append(("missing-ref-implied-bound-on-Self", "lifetime", self_ref_missing_bound))

    # struct fields
    def field_fault(rule, build_ty, out=False):
        def f(prog, draw):
            c = [(mod, it) for mod, it in ir.all_items(prog) if it["kind"] == "struct" and bool(it.get("out")) == out and it["fields"]]
            if not c:
                return None
            mod, it = draw(st.sampled_from(c))
            ty = build_ty(prog, draw, mod)
            if ty is None:
                return None
            it["fields"].insert(draw(st.integers(0, len(it["fields"]))), ["dv_fault", ty, []])
            return (it["name"], 1)
        F.append((rule, "out-field" if out else "field", f))

    field_fault("std-option-of-primitive-in-field", const(["opt", ["prim", "u16"], "std"]))
    field_fault("std-option-of-enum-in-field", with_enum(lambda n: ["opt", ["enum", n], "std"]))
    field_fault("std-option-of-struct-in-field", with_struct(lambda n: ["opt", ["struct", n, []], "std"]))
    field_fault("std-str-in-field", const(["str", "static", "utf8", "std"]))
    field_fault("std-slice-in-field", const(["slice", "static", False, "u8", "std"]))
    field_fault("result-in-field", const(["result", ["prim", "u8"], ["unit"], "std"]))
    field_fault("unit-in-field", const(["unit"]))
    field_fault("opaque-by-value-in-field", with_opaque(lambda n: ["struct", n, []]))
    field_fault("box-in-input-struct-field", with_opaque(lambda n: ["box", n, []]))
    field_fault("write-in-field", const(raw("DiplomatWrite")))
    def dv_trait(prog, draw, mod):
        if "pub trait DvTrait { fn go(&self, x: u8) -> u8; }" not in mod.setdefault("raw_items", []):
            mod["raw_items"].append("pub trait DvTrait { fn go(&self, x: u8) -> u8; }")
        return raw("impl DvTrait")
    field_fault("trait-in-field", dv_trait)
    field_fault("trait-in-out-field", dv_trait, out=True)
    ret_fault("trait-in-output", dv_trait, wraps=("plain", "ok"))
    field_fault("callback-in-field", const(["cb", [["prim", "u8"]], ["unit"], False]))
    field_fault("callback-in-out-field", const(["cb", [], ["prim", "u8"], False]), out=True)
    field_fault("ref-to-struct-in-field", with_struct(lambda n: ["ref", "static", False, n, []]))
    field_fault("std-str-in-out-field", const(["str", "static", "utf8", "std"]), out=True)
    field_fault("std-slice-in-out-field", const(["slice", "static", False, "u8", "std"]), out=True)
    field_fault("diplomat-option-of-std-str-in-field", const(raw("DiplomatOption<&'static str>")))
    field_fault("diplomat-option-of-std-slice-in-out-field", const(raw("DiplomatOption<&'static [u8]>")), out=True)
    field_fault("std-option-of-primitive-in-out-field", const(["opt", ["prim", "u16"], "std"]), out=True)
    field_fault("opaque-by-value-in-out-field", with_opaque(lambda n: ["struct", n, []]), out=True)
    field_fault("ref-to-struct-in-out-field", with_struct(lambda n: ["ref", "static", False, n, []]), out=True)
    field_fault("result-in-out-field", const(["result", ["prim", "u8"], ["unit"], "std"]), out=True)
    return F


FAULTS = make_faults()

_orig_rs_type = ir.rs_type


def _rs_type_with_raw(t):
    if t[0] == "raw":
        return t[1]
    return _orig_rs_type(t)


ir.rs_type = _rs_type_with_raw
_orig_walk = ir.walk


@st.composite
def cases(draw):
    prof = {k: draw(st.booleans()) for k in FLAGS}
    over = dict(prof)
    over.update(modules=draw(st.sampled_from([1, 1, 2])), max_types=7, max_methods=3, strs=True, utf8strs=False)
    p = S.profile_for([], **over)
    prog = draw(S.programs(p))
    # faults
    muts = []
    k = draw(st.integers(2, 5))
    idxs = draw(st.lists(st.integers(0, len(FAULTS) - 1), min_size=k, max_size=k, unique=True))
    for i in idxs:
        rule, pos, f = FAULTS[i]
        p2 = copy.deepcopy(prog)
        r = f(p2, draw)
        if r is None:
            continue
        if isinstance(r[0], tuple):
            (ctx, depth), where = r
            pos = pos + ":" + where
        else:
            ctx, depth = r
        muts.append({"rule": rule, "position": pos, "ctx": ctx, "depth": depth, "program": p2})
    # profile faults: use a feature the drawn profile does not support
    pf = []
    ms = methods_of(prog)
    if ms:
        for flag, ty in (("option", ["opt", ["prim", "u8"], "std"]), ("callbacks", ["cb", [["prim", "u8"]], ["unit"], False]),
                         ("static_slices", ["slice", "static", False, "u8", "std"])):
            if not prof[flag]:
                p2 = copy.deepcopy(prog)
                ms2 = methods_of(p2)
                mod, it, impl, m = ms2[draw(st.integers(0, len(ms2) - 1))]
                m["params"].insert(0, ["dv_fault", ty, []])
                pf.append({"rule": "unsupported-" + flag, "position": "param", "ctx": "%s::%s" % (it["name"], m["name"]), "depth": 1, "program": p2})
    # a bridged trait (traits supported) one of whose methods breaks a rule: a clean rejection naming the trait method
    tf = []
    bad = draw(st.sampled_from([("result-as-param", "x: Result<u8, u8>"), ("ref-to-primitive", "x: &u8"), ("unit-as-param", "x: ()")]))
    p3 = copy.deepcopy(prog)
    p3["modules"][0].setdefault("raw_items", []).append("pub trait DvFaultTrait { fn dv_ok(&self, a: u8) -> u8; fn dv_bad(&self, %s); }" % bad[1])
    tf.append({"rule": bad[0] + "-in-trait-method", "position": "trait", "ctx": "DvFaultTrait::dv_bad", "depth": 1, "program": p3, "support_over": {"traits": True}})
    # an `iterable` whose returned opaque has no `iterator` method (special methods are recorded whatever the profile)
    o_ = pick_opaque(prog, draw)
    if o_ and not any("iterator)" in a for im in o_["impls"] for mm in im["methods"] for a in mm["attrs"]):
        p4 = copy.deepcopy(prog)
        host4 = next(it for _, it in ir.all_items(p4) if it["name"] == o_["name"])
        host4["impls"].append({"attrs": [], "methods": [{"name": "dv_fault_iter", "attrs": ["#[diplomat::attr(*, iterable)]"], "lifetimes": [], "self": ["ref", None, False], "params": [], "ret": ["box", o_["name"], []]}]})
        for m_ in p4["modules"]:
            ir.default_order(m_)
        tf.append({"rule": "iterable-returns-type-without-iterator", "position": "special-method", "ctx": "%s::dv_fault_iter" % o_["name"], "depth": 1, "program": p4, "support_over": {"iterables": True, "iterators": True}})
    return prof, prog, muts + pf + tf


def evaluate(pr, prog, prof, expect_ctx=None, support_over=None):
    src = ir.render_program(prog)
    sup = support_of(prof)
    sup.update(support_over or {})
    rep = pr.ask(src, support=sup)
    return src, rep


def verdict_valid(rep):
    if rep["status"] == "ok":
        return None
    if rep["status"] == "errors":
        return "valid program rejected: " + "; ".join("%s: %s" % (c, m) for c, m in rep["errors"][:4])
    return "lowering %s on a valid program: %s" % (rep["status"], rep.get("panic", ""))


def verdict_mutant(rep, mut):
    if rep["status"] == "ok":
        return "accepted although it violates rule `%s` (planted in %s, position %s)" % (mut["rule"], mut["ctx"], mut["position"])
    if rep["status"] == "errors":
        ctxs = [c for c, m in rep["errors"]]
        if mut["ctx"] in ctxs:
            return None
        return "rejected, but no error carries the offending context %s (rule `%s`); contexts reported: %s" % (mut["ctx"], mut["rule"], sorted(set(ctxs))[:5])
    return "lowering %s instead of reporting an error for rule `%s` in %s: %s" % (rep["status"], mut["rule"], mut["ctx"], rep.get("panic", "")[:200])


def worker(widx, seed, params):
    pr = probe_mod.Probe()
    acc = pbt.Acc("C05", max_violations=8)
    known = {f["signature"] for f in findings.known_for("C05")}

    def body(case):
        if acc.full():
            return
        prof, prog, muts = case
        ptag = "".join("1" if prof[k] else "0" for k in FLAGS)
        ntypes = sum(1 for _ in ir.all_items(prog))
        src, rep = evaluate(pr, prog, prof)
        msg = verdict_valid(rep)
        acc.case([ir.dumps(prog), ptag, "valid"], ntypes >= 5, ["valid:profile-" + ptag, "valid:" + rep["status"]],
                 sample={"profile": prof, "kind": "valid", "lib_rs": src[:1200]})
        if msg:
            sig = "valid|" + (rep["errors"][0][1][:60] if rep["status"] == "errors" else rep["status"] + "|" + rep.get("panic", "")[:60])
            if sig in known:
                acc.extra["known:" + sig] += 1
            else:
                def still(p2):
                    return verdict_valid(evaluate(pr, p2, prof)[1]) is not None
                small, _ = red.reduce(prog, still, budget=200)
                s2, r2 = evaluate(pr, small, prof)
                acc.violation("%s\nprofile %s\n--- lib.rs ---\n%s" % (verdict_valid(r2) or msg, prof, s2), {"profile": prof, "program": small, "kind": "valid"}, signature=sig)
            return
        for mut in muts:
            s2, r2 = evaluate(pr, mut["program"], prof, support_over=mut.get("support_over"))
            m2 = verdict_mutant(r2, mut)
            nt = mut["depth"] >= 2 or mut["position"].startswith(("return", "out-field", "lifetime"))
            acc.case([ir.dumps(mut["program"]), ptag, mut["rule"]], nt,
                     ["mutant:%s:%s" % (mut["rule"], mut["position"]), "mutant-outcome:" + r2["status"]],
                     sample={"profile": prof, "kind": "mutant", "rule": mut["rule"], "ctx": mut["ctx"], "lib_rs": s2[:1200]})
            if m2:
                sig = "mutant|%s|%s|%s" % (mut["rule"], mut["position"], r2["status"])
                if sig in known:
                    acc.extra["known:" + sig] += 1
                    continue
                acc.violation("%s\nprofile %s\n--- lib.rs ---\n%s" % (m2, prof, s2),
                              {"profile": prof, "program": mut["program"], "kind": "mutant", "rule": mut["rule"], "ctx": mut["ctx"], "position": mut["position"], "depth": mut["depth"], "support_over": mut.get("support_over")},
                              signature=sig)

    pbt.explore(cases(), body, params["n"], seed)
    pr.close()
    return acc.result()


REAL = {
    "c": dict(option=True, callbacks=True, static_slices=True), "cpp": dict(option=True, callbacks=True, static_slices=True),
    "js": dict(option=True, callbacks=False, static_slices=False), "dart": dict(option=True, callbacks=False, static_slices=False),
    "kotlin": dict(option=False, callbacks=True, static_slices=True), "nanobind": dict(option=True, callbacks=True, static_slices=True),
}


def binary_worker(widx, seed, params):
    """cross-check: the diplomat-tool binary (real backend tables) agrees with the model on valid programs and mutants"""
    art = build.ensure_repo_artifacts()
    work = build.workdir("c05-bin-w%d" % widx)
    acc = pbt.Acc("C05", max_violations=4)

    @st.composite
    def bcases(draw):
        b = draw(st.sampled_from(sorted(REAL)))
        prof = REAL[b]
        over = dict(prof)
        over.update(modules=1, max_types=6, max_methods=3, strs=False, utf8strs=False)
        p = S.profile_for([], **over)
        prog = draw(S.programs(p))
        i = draw(st.integers(0, len(FAULTS) - 1))
        rule, pos, f = FAULTS[i]
        p2 = copy.deepcopy(prog)
        r = f(p2, draw)
        mut = None
        if r is not None:
            ctx, depth = (r[0] if isinstance(r[0], tuple) else r)
            mut = {"rule": rule, "position": pos, "ctx": ctx, "depth": depth, "program": p2}
        return b, prog, mut

    n = [0]

    def body(case):
        if acc.full():
            return
        b, prog, mut = case
        n[0] += 1
        for kind, pg in (("valid", prog), ("mutant", mut["program"] if mut else None)):
            if pg is None:
                continue
            d = os.path.join(work, "p%d" % (n[0] % 3))
            os.makedirs(d, exist_ok=True)
            entry = os.path.join(d, "lib.rs")
            src = ir.render_program(pg)
            open(entry, "w").write(src)
            r = tool.run_backend(art, b, entry, os.path.join(d, "out"))
            cls = r.classify()
            acc.case([ir.dumps(pg), b, kind], kind == "mutant", ["binary:%s:%s:%s" % (b, kind, cls)], sample={"backend": b, "kind": kind, "outcome": cls, "lib_rs": src[:800]})
            if kind == "valid" and cls == "lowering-error":
                acc.violation("diplomat-tool %s rejects a valid program: %s\n--- lib.rs ---\n%s" % (b, r.lowering_errors[:3], src),
                              {"backend": b, "program": pg, "kind": "binary-valid"}, signature="binary|valid|" + b)
            if kind == "mutant":
                ctxs = [l[len("Lowering error in "):].split(":")[0] + ("::" + l[len("Lowering error in "):].split("::")[1].split(":")[0] if "::" in l.split(": ")[0] else "") for l in r.lowering_errors]
                if cls != "lowering-error" and cls != "panic":
                    acc.violation("diplomat-tool %s accepts a program violating rule `%s` in %s (outcome %s)\n--- lib.rs ---\n%s" % (b, mut["rule"], mut["ctx"], cls, src),
                                  {"backend": b, "program": pg, "kind": "binary-mutant", "rule": mut["rule"], "ctx": mut["ctx"]}, signature="binary|mutant|%s|%s" % (mut["rule"], mut["position"]))
                elif cls == "lowering-error" and not any(l.startswith("Lowering error in %s:" % mut["ctx"]) for l in r.lowering_errors):
                    acc.violation("diplomat-tool %s rejects rule `%s` without naming %s: %s\n--- lib.rs ---\n%s" % (b, mut["rule"], mut["ctx"], r.lowering_errors[:4], src),
                                  {"backend": b, "program": pg, "kind": "binary-mutant", "rule": mut["rule"], "ctx": mut["ctx"]}, signature="binary|ctx|%s|%s" % (mut["rule"], mut["position"]))

    pbt.explore(bcases(), body, params["n"], seed)
    build.rm_workdir(work)
    return acc.result()


def run(ctx):
    n = 1200 if ctx.quick else 40000
    nb = 25 if ctx.quick else 600
    build.ensure_rs("dv-probe", "release")
    m = pbt.run_workers("checks.c05", "worker", 12, ctx.seed, {"n": n})
    mb = pbt.run_workers("checks.c05", "binary_worker", 12, ctx.seed + 1, {"n": nb})
    labels = dict(m["labels"])
    labels.update(mb["labels"])
    known_seen = []
    for f in findings.known_for("C05"):
        c = m["extra"].get("known:" + f["signature"], 0)
        if c:
            known_seen.append(f["what"])
    cells = sorted(k for k in labels if k.startswith("mutant:"))
    cov = {"evaluations": m["evaluations"] + mb["evaluations"], "distinct_nontrivial": m["distinct_nontrivial"] + mb["distinct_nontrivial"], "rule": RULE,
           "samples": m["samples"][:3] + mb["samples"][:1], "labels": labels, "rule_position_cells": len(cells), "faults_defined": len(FAULTS)}
    res = {"coverage": cov, "assumptions": ASSUME, "violations": m["violations"] + mb["violations"], "known_seen": known_seen}
    rejected = sum(v for k, v in labels.items() if k == "valid:errors")
    if rejected > 0.2 * max(1, sum(v for k, v in labels.items() if k.startswith("valid:profile"))):
        res["health_failure"] = "generator health: %d valid programs rejected" % rejected
    return res


def replay(ctx):
    c = json.load(open(ctx.replay))["case"]
    if c["kind"].startswith("binary"):
        art = build.ensure_repo_artifacts()
        work = build.workdir("c05-replay")
        entry = os.path.join(work, "lib.rs")
        open(entry, "w").write(ir.render_program(c["program"]))
        r = tool.run_backend(art, c["backend"], entry, os.path.join(work, "out"))
        print(r.classify(), r.stderr[-800:])
        bad = (c["kind"] == "binary-valid" and r.classify() == "lowering-error") or (c["kind"] == "binary-mutant" and r.classify() not in ("lowering-error",))
        build.rm_workdir(work)
        return {"violations": [{"replay": ctx.replay, "message": r.stderr[-500:]}] if bad else []}
    pr = probe_mod.Probe()
    src, rep = evaluate(pr, c["program"], c["profile"], support_over=c.get("support_over"))
    msg = verdict_valid(rep) if c["kind"] == "valid" else verdict_mutant(rep, c)
    pr.close()
    print(src)
    print(rep)
    return {"violations": [{"replay": ctx.replay, "message": msg}] if msg else []}
