"""C11 — enum variants carry the same numeric value in Rust and in every binding."""
import json, os, re, subprocess
from hypothesis import strategies as st
from .. import build, pbt, tool, compilers, findings
from ..gen import ir, strategies as S

RULE = ("Hypothesis-generated batches of C-like enums (1-8 variants; implicit / explicit / mixed discriminants over the whole i32 range incl. negatives, gaps, "
        "non-monotonic orders, contiguous-from-zero and almost-contiguous shapes), each with a by-value identity method. Ground truth: `Variant as isize` printed by "
        "the crate compiled through the real proc macro. C: constants printed by a compiled C program; C++ (cpp and nanobind headers): Type::Variant values and "
        "FromFFI(AsFFI(v)) == v, executed; JS: ffiValue, name, and the from-Rust constructor path executed in Node (incl. a call through an identity wasm stub); "
        "Dart / Kotlin / nanobind: value tables and from-Rust expressions parsed from the generated text. A case = one (enum, binding). "
        "Non-trivial: the enum is not contiguous-from-zero. Distinct = distinct (enum definition, binding).")
ASSUME = [
    "Dart, Kotlin and nanobind outputs are parsed, not executed (no toolchain); a positional from-Rust expression (values[i] / entries[i] / ordinal) is accepted only for enums that are 0,1,2,... in declaration order",
    "variant names are plain UpperCamelCase words so that per-language renaming conventions (lowerCamel in Dart) are unambiguous",
]

VNAMES = ["Alpha", "Beta", "Gamma", "Delta", "Epsilon", "Zeta", "Eta", "Theta", "Iota", "Kappa", "Lambda", "Mu"]
ENAMES = ["Aa", "Bb", "Cc", "Dd", "Ee", "Ff", "Gg", "Hh", "Ii", "Jj", "Kk", "Ll", "Mm", "Nn", "Oo", "Pp"]


@st.composite
def enum_def(draw, name):
    n = draw(st.integers(1, 8))
    names = draw(st.permutations(VNAMES))[:n]
    shape = draw(st.sampled_from(["implicit", "explicit-contig", "almost", "random", "mixed", "mixed", "extreme", "permuted"]))
    variants = []
    used, last = set(), -1
    lo, hi = -(2 ** 31), 2 ** 31 - 1
    perm = draw(st.permutations(list(range(n))))
    for i, v in enumerate(names):
        disc = None
        if shape == "implicit":
            disc = None
        elif shape == "explicit-contig":
            disc = i
        elif shape == "permuted":
            disc = perm[i]
        elif shape == "almost":
            disc = i if draw(st.integers(0, 4)) else i + draw(st.integers(1, 3))
            if i == 0 and draw(st.booleans()):
                disc = draw(st.sampled_from([0, 1]))
        elif shape == "random":
            disc = draw(st.integers(-20, 40))
        elif shape == "mixed":
            disc = draw(st.one_of(st.none(), st.none(), st.integers(-8, 16), st.integers(lo, hi)))
        elif shape == "extreme":
            disc = draw(st.one_of(st.none(), st.sampled_from([lo, lo + 1, -1, 0, 1, 255, 256, 65535, 65536, hi - 1, hi])))
        val = last + 1 if disc is None else disc
        # keep the definition acceptable to rustc: unique values inside i32
        if val in used or val > hi or val < lo:
            # pick the nearest free value inside i32 (upwards first, then downwards)
            cand = None
            base = min(max(val, lo), hi)
            for step in range(1, 64):
                for c in (base + step, base - step):
                    if lo <= c <= hi and c not in used:
                        cand = c
                        break
                if cand is not None:
                    break
            val = cand
            disc = val
        used.add(val)
        last = val
        variants.append([v, disc, []])
    it = {"kind": "enum", "name": name, "attrs": [], "variants": variants,
          "impls": [{"attrs": [], "methods": [{"name": "ident", "attrs": [], "lifetimes": [], "self": ["val"], "params": [], "ret": ["enum", name],
                                                "body": "self"}]}]}
    return it


@st.composite
def batches(draw):
    k = draw(st.integers(8, 14))
    items = [draw(enum_def(ENAMES[i])) for i in range(k)]
    prog = {"modules": [{"name": "ffi", "attrs": [], "uses": [], "items": items}], "extra_top": [], "config_attrs": []}
    ir.default_order(prog["modules"][0])
    return prog


def truth_model(it):
    return dict(S.enum_values(it))


def lower_camel(s):
    return s[0].lower() + s[1:]


def run_cmd(cmd, cwd=None, timeout=300):
    p = subprocess.run(cmd, cwd=cwd, stdout=subprocess.PIPE, stderr=subprocess.PIPE, text=True, timeout=timeout)
    return p.returncode, p.stdout, p.stderr


def ground_truth(art, work, prog):
    items = prog["modules"][0]["items"]
    main = "fn main() {\n"
    for it in items:
        for v in it["variants"]:
            main += '    println!("%s %s {}", ffi::%s::%s as isize);\n' % (it["name"], v[0], it["name"], v[0])
    main += "}\n"
    src = ir.render_program(prog) + "\n" + main
    entry = os.path.join(work, "truth.rs")
    open(entry, "w").write(src)
    exe = os.path.join(work, "truth")
    ok, err = compilers.rustc(art, entry, exe, crate_type="bin", emit=None)
    if not ok:
        return None, err
    rc, so, se = run_cmd([exe])
    t = {}
    for line in so.split("\n"):
        p = line.split()
        if len(p) == 3:
            t.setdefault(p[0], {})[p[1]] = int(p[2])
    return t, ""


def c_values(work, outdir, prog):
    items = prog["modules"][0]["items"]
    src = "#include <stdio.h>\n" + "".join('#include "%s.h"\n' % it["name"] for it in items) + "int main(void) {\n"
    for it in items:
        for v in it["variants"]:
            src += '  printf("%s %s %%lld\\n", (long long)%s_%s);\n' % (it["name"], v[0], it["name"], v[0])
    src += "  return 0;\n}\n"
    f = os.path.join(work, "cvals.c")
    open(f, "w").write(src)
    exe = os.path.join(work, "cvals")
    rc, so, se = run_cmd(["gcc", "-std=c11", "-w", "-I", outdir, f, "-o", exe])
    if rc != 0:
        return None, se[-600:]
    rc, so, se = run_cmd([exe])
    t = {}
    for line in so.split("\n"):
        p = line.split()
        if len(p) == 3:
            t.setdefault(p[0], {})[p[1]] = int(p[2])
    return t, ""


def cpp_values(work, incdir, prog, tag):
    items = prog["modules"][0]["items"]
    src = "#include <cstdio>\n" + "".join('#include "%s.hpp"\n' % it["name"] for it in items) + "int main() {\n"
    for it in items:
        for v in it["variants"]:
            n, vn = it["name"], v[0]
            src += '  {{ {n} x = {n}::{vn}; {n} y = {n}::FromFFI(x.AsFFI()); printf("{n} {vn} %lld %d %lld\\n", (long long)({n}::Value)x, (int)(({n}::Value)y == {n}::{vn}), (long long)x.AsFFI()); }}\n'.format(n=n, vn=vn)
    src += "  return 0;\n}\n"
    f = os.path.join(work, "cppvals-%s.cpp" % tag)
    open(f, "w").write(src)
    exe = os.path.join(work, "cppvals-" + tag)
    # the identity methods are declared but never called: no Rust library is needed to link
    rc, so, se = run_cmd(["g++", "-std=c++17", "-w", "-I", incdir, f, "-o", exe])
    if rc != 0:
        return None, se[-800:]
    rc, so, se = run_cmd([exe])
    t = {}
    for line in so.split("\n"):
        p = line.split()
        if len(p) == 5:
            t.setdefault(p[0], {})[p[1]] = (int(p[2]), int(p[3]), int(p[4]))
    return t, ""


def js_values(work, jsdir, prog):
    compilers.install_js_stub(jsdir)
    spec = {it["name"]: [v[0] for v in it["variants"]] for it in prog["modules"][0]["items"]}
    sp = os.path.join(work, "spec.json")
    json.dump(spec, open(sp, "w"))
    rc, so, se = compilers.node_run(os.path.join(compilers.NODE_DIR, "enum-values.mjs"), [jsdir, sp])
    if rc != 0:
        return None, (so + se)[-600:]
    return json.loads(so.strip().split("\n")[-1]), ""


def dart_parse(outdir, it):
    text = open(os.path.join(outdir, it["name"] + ".g.dart")).read()
    m = re.search(r"enum %s \{(.*?);" % it["name"], text, re.S)
    names = [x.strip() for x in re.sub(r"//.*", "", m.group(1)).split(",") if x.strip()]
    names = [re.sub(r"\s+", "", n) for n in names]
    table = {}
    sw = re.search(r"int get _ffi \{\s*switch \(this\) \{(.*?)\n    \}", text, re.S)
    if sw:
        for cm in re.finditer(r"case (\w+):\s*return (-?\d+);", sw.group(1)):
            table[cm.group(1)] = int(cm.group(2))
        to_native = "switch"
    elif re.search(r"int get _ffi => index", text) or "_ffi" not in text or re.search(r"\bindex\b", text):
        table = {n: i for i, n in enumerate(names)}
        to_native = "index"
    else:
        to_native = "unknown"
    if re.search(r"values\.firstWhere\(\(v\) => v\._ffi == result\)", text):
        from_native = "lookup"
    elif re.search(r"values\[result\]", text):
        from_native = "positional"
    else:
        from_native = "unknown"
    return names, table, to_native, from_native


def kotlin_parse(outdir, it):
    fs = []
    for dp, _, fns in os.walk(outdir):
        for fn in fns:
            if fn == it["name"] + ".kt":
                fs.append(os.path.join(dp, fn))
    text = open(fs[0]).read()
    m = re.search(r"enum class %s(\(val inner: Int\))? \{(.*?);" % it["name"], text, re.S)
    body = m.group(2)
    names, table = [], {}
    if m.group(1):
        for vm in re.finditer(r"(\w+)\((-?\d+)\)", body):
            names.append(vm.group(1))
            table[vm.group(1)] = int(vm.group(2))
        to_native = "inner" if "return this.inner" in text else "unknown"
    else:
        names = [x.strip() for x in body.split(",") if x.strip()]
        table = {n: i for i, n in enumerate(names)}
        to_native = "ordinal" if "return this.ordinal" in text else "unknown"
    fm = re.search(r"fun fromNative\(native: Int\): %s \{(.*?)\n        \}" % it["name"], text, re.S)
    from_table, from_native = {}, "unknown"
    if fm:
        if "entries[native]" in fm.group(1):
            from_native = "positional"
        else:
            for wm in re.finditer(r"(-?\d+) -> (\w+)", fm.group(1)):
                from_table[int(wm.group(1))] = wm.group(2)
            from_native = "lookup"
    return names, table, to_native, from_native, from_table


def nanobind_parse(outdir, it):
    text = open(os.path.join(outdir, "somelib_ext.cpp")).read()
    m = re.search(r'nb::enum_<%s::Value>\(e_class, "%s"\)(.*?)\n\s*\.def' % (it["name"], it["name"]), text, re.S)
    if not m:
        return None
    return re.findall(r'\.value\("(\w+)", %s::(\w+)\)' % it["name"], m.group(1))


def contiguous(it):
    vals = [v for _, v in S.enum_values(it)]
    return vals == list(range(len(vals)))


def check_batch(art, work, prog):
    """returns (results: list of (enum, binding, ok, message), infra_error)"""
    truth, err = ground_truth(art, work, prog)
    if truth is None:
        return None, "rustc rejected the generated enums: " + err[-500:]
    res = []
    items = prog["modules"][0]["items"]
    entry = os.path.join(work, "lib.rs")
    open(entry, "w").write(ir.render_program(prog))
    for it in items:
        mt = truth_model(it)
        ok = truth[it["name"]] == mt
        res.append((it, "rustc-vs-rule", ok, "" if ok else "rustc assigns %s, the documented rule gives %s" % (truth[it["name"]], mt)))
    outs = {}
    for b in ("c", "cpp", "js", "dart", "kotlin", "nanobind"):
        r = tool.run_backend(art, b, entry, os.path.join(work, "out-" + b), config=["js.abi=spec"] if b == "js" else None)
        outs[b] = r
        if not r.ok:
            for it in items:
                res.append((it, b, False, "backend did not accept the enum batch: " + r.stderr[-300:]))
    if outs["c"].ok:
        t, err = c_values(work, outs["c"].outdir, prog)
        for it in items:
            if t is None:
                res.append((it, "c", False, "C value program does not compile: " + err))
            else:
                ok = t.get(it["name"]) == truth[it["name"]]
                res.append((it, "c", ok, "" if ok else "C constants %s differ from rustc's %s" % (t.get(it["name"]), truth[it["name"]])))
    for b, inc in (("cpp", None), ("nanobind", "include")):
        if not outs[b].ok:
            continue
        incdir = outs[b].outdir if inc is None else os.path.join(outs[b].outdir, inc)
        t, err = cpp_values(work, incdir, prog, b)
        for it in items:
            if t is None:
                res.append((it, b, False, "C++ value program does not compile: " + err))
                continue
            got = t.get(it["name"], {})
            bad = []
            for vn, val in truth[it["name"]].items():
                g = got.get(vn)
                if g is None or g[0] != val or g[2] != val:
                    bad.append("%s::%s is %s / AsFFI %s, rustc says %s" % (it["name"], vn, g and g[0], g and g[2], val))
                elif g[1] != 1:
                    bad.append("%s::FromFFI(AsFFI(%s)) != %s" % (it["name"], vn, vn))
            if b == "nanobind":
                pairs = nanobind_parse(outs[b].outdir, it)
                if pairs is None or sorted(pairs) != sorted((vn, vn) for vn in truth[it["name"]]):
                    bad.append("nanobind .value() table %s does not list every variant under its own name" % (pairs,))
            res.append((it, b, not bad, "; ".join(bad[:3])))
    if outs["js"].ok:
        t, err = js_values(work, outs["js"].outdir, prog)
        for it in items:
            if t is None:
                res.append((it, "js", False, "node failed: " + err))
                continue
            got = t.get(it["name"], {})
            bad = []
            if "__error" in got:
                bad.append(got["__error"])
            for vn, val in truth[it["name"]].items():
                g = got.get(vn, {})
                if g.get("error"):
                    bad.append("%s.%s: %s" % (it["name"], vn, g["error"]))
                elif g.get("ffi") != val:
                    bad.append("%s.%s.ffiValue = %s, rustc says %s" % (it["name"], vn, g.get("ffi"), val))
                elif g.get("name") != vn:
                    bad.append("%s.%s.value = %r" % (it["name"], vn, g.get("name")))
                elif g.get("back") != vn:
                    bad.append("value %s received from Rust becomes %r, expected %s" % (val, g.get("back"), vn))
                elif g.get("viaWasm") != vn:
                    bad.append("%s.%s.ident() through an identity export came back as %r" % (it["name"], vn, g.get("viaWasm")))
                elif g.get("memDisc") != val or g.get("viaMemory") != vn:
                    bad.append("discriminant %s stored by Rust in linear memory is read back as %r and becomes %r, expected %s" % (val, g.get("memDisc"), g.get("viaMemory"), vn))
            res.append((it, "js", not bad, "; ".join(bad[:3])))
    if outs["dart"].ok:
        for it in items:
            try:
                names, table, to_native, from_native = dart_parse(outs["dart"].outdir, it)
            except Exception as e:
                res.append((it, "dart", False, "cannot parse generated Dart enum: %r" % e))
                continue
            want = {lower_camel(k): v for k, v in truth[it["name"]].items()}
            bad = []
            if table != want:
                bad.append("Dart values (%s) %s differ from rustc's %s" % (to_native, table, want))
            if from_native == "positional" and not contiguous(it):
                bad.append("Dart converts a value received from Rust positionally (values[result]) although the enum is not 0,1,2,.. in order")
            if from_native == "unknown" or to_native == "unknown":
                bad.append("unrecognised Dart conversion code (to=%s from=%s)" % (to_native, from_native))
            if [lower_camel(v[0]) for v in it["variants"]] != names:
                bad.append("Dart variant list %s differs from the declaration" % names)
            res.append((it, "dart", not bad, "; ".join(bad[:3])))
    if outs["kotlin"].ok:
        for it in items:
            try:
                names, table, to_native, from_native, from_table = kotlin_parse(outs["kotlin"].outdir, it)
            except Exception as e:
                res.append((it, "kotlin", False, "cannot parse generated Kotlin enum: %r" % e))
                continue
            want = truth[it["name"]]
            bad = []
            if table != want:
                bad.append("Kotlin values (%s) %s differ from rustc's %s" % (to_native, table, want))
            if from_native == "positional" and not contiguous(it):
                bad.append("Kotlin fromNative is positional (entries[native]) although the enum is not 0,1,2,.. in order")
            if from_native == "lookup" and from_table != {v: k for k, v in want.items()}:
                bad.append("Kotlin fromNative table %s differs from %s" % (from_table, {v: k for k, v in want.items()}))
            if "unknown" in (from_native, to_native):
                bad.append("unrecognised Kotlin conversion code (to=%s from=%s)" % (to_native, from_native))
            res.append((it, "kotlin", not bad, "; ".join(bad[:3])))
    return res, None


def worker(widx, seed, params):
    art = build.ensure_repo_artifacts()
    work = build.workdir("c11-w%d" % widx)
    acc = pbt.Acc("C11", max_violations=6)

    def body(prog):
        if acc.full():
            return
        res, err = check_batch(art, work, prog)
        if res is None:
            raise build.Inconclusive(err)
        for it, binding, ok, msg in res:
            nt = not contiguous(it)
            key = [[v[0], v[1]] for v in it["variants"]]
            acc.case([key, binding], nt, ["binding:" + binding, "contiguous" if not nt else "non-contiguous"],
                     sample={"binding": binding, "enum": ir.render_item(it)})
            if not ok:
                sig = "%s|%s" % (binding, re.sub(r"[-\d]+", "N", msg)[:50])
                one = {"modules": [{"name": "ffi", "attrs": [], "uses": [], "items": [dict(it, name="Aa")]}], "extra_top": [], "config_attrs": []}
                one["modules"][0]["items"][0]["impls"][0]["methods"][0]["ret"] = ["enum", "Aa"]
                ir.default_order(one["modules"][0])
                acc.violation("%s binding: %s\n--- enum ---\n%s" % (binding, msg, ir.render_item(it)), {"program": one, "binding": binding}, signature=sig)

    pbt.explore(batches(), body, params["n"], seed)
    build.rm_workdir(work)
    return acc.result()


def run(ctx):
    n = 8 if ctx.quick else 150
    m = pbt.run_workers("checks.c11", "worker", 14, ctx.seed, {"n": n})
    cov = {"evaluations": m["evaluations"], "distinct_nontrivial": m["distinct_nontrivial"], "rule": RULE, "samples": m["samples"], "labels": m["labels"]}
    return {"coverage": cov, "assumptions": ASSUME, "violations": m["violations"]}


def replay(ctx):
    art = build.ensure_repo_artifacts()
    c = json.load(open(ctx.replay))["case"]
    work = build.workdir("c11-replay")
    res, err = check_batch(art, work, c["program"])
    build.rm_workdir(work)
    v = []
    for it, binding, ok, msg in res or []:
        if not ok:
            print(binding, msg)
            v.append({"replay": ctx.replay, "message": "%s: %s" % (binding, msg)})
    return {"violations": v}
