"""C10 — Option and Result use one consistent wire encoding everywhere (twin spellings, executed end to end)."""
import copy, json, os, re, zlib
from hypothesis import strategies as st
from .. import build, pbt, e2e, findings
from ..gen import ir, strategies as S
from ..models import naming
from . import c01, c02

RULE = ("Hypothesis-generated hosts with, for each drawn payload type T (every primitive, enums with negative/gapped discriminants, structs with and without padding, "
        "out-structs in return positions), "
        "twin methods that differ only in spelling: Option<T> vs DiplomatOption<T> as parameter and as return, Result<T,E> vs DiplomatResult<T,E> with unit and non-unit "
        "arms (also on methods that return text through a DiplomatWrite), the by-value payload spelled `Self` on its own type (Option<Self> / DiplomatOption<Self> / Option<Name>), plus optional opaque pointers (Option<&O> in, Option<&O> / Option<Box<O>> out) and a struct carrying DiplomatOption<T> and Option<&O> fields in both directions. "
        "Twins receive identical drawn call vectors. Oracle: (1) the C prototypes and result typedefs of each twin pair are token-identical after renaming; (2) executed through "
        "the generated header (gcc, ASan+UBSan) both twins log and return exactly the drawn values (every third program also through the generated C++ API, std::optional / std::nullopt / diplomat::result, with the same oracle); (3) read from C as bytes, is_ok is 0 or 1 and 1 exactly for Some/Ok, it "
        "sits after the payload union, sizeof of every result/option equals the size of the type the proc macro returns, None pointers are NULL and Some pointers are not. "
        "A case = one call of one twin. Non-trivial: payload is a padded struct or an enum with a negative discriminant, or a result with a unit Ok and non-unit Err. "
        "Distinct = distinct (program, method, call vector).")
ASSUME = [
    "both spellings are generated only where both are documented (primitive, enum and struct payloads); Option<&T>/Option<Box<T>> have a single spelling",
    "the C++ half of 'identical declarations' is covered by C02's driver on the same twin programs",
]


@st.composite
def cases(draw):
    p = S.profile_for(["c"], callbacks=False, keywords=False, modules=1, max_types=5, max_methods=1, self_spelling=False)
    prog = draw(S.programs(p))
    items = prog["modules"][0]["items"]
    for it in items:
        it["impls"] = []
    enums = [i for i in items if i["kind"] == "enum"]
    structs = [i for i in items if i["kind"] == "struct" and not i.get("out") and i["fields"] and not i.get("lifetimes")]
    opaques = [i for i in items if i["kind"] == "opaque" and not i.get("lifetimes")]
    if not opaques:
        op = {"kind": "opaque", "name": "HostOp", "attrs": [], "lifetimes": [], "impls": []}
        items.append(op)
        opaques = [op]
    host = opaques[0]
    payloads = [["prim", draw(S.prims(p))] for _ in range(draw(st.integers(2, 4)))]
    payloads += [["enum", e["name"]] for e in enums[:2]]
    payloads += [["struct", s_["name"], []] for s_ in structs[:2]]
    # out-structs can only be returned: they take part in the `_out_` and `_res_` twins
    outs = [i for i in items if i["kind"] == "struct" and i.get("out") and i["fields"] and not i.get("lifetimes")]
    out_only = [["struct", s_["name"], []] for s_ in outs[:2]]
    methods, twins, same_body = [], [], []

    def add(name, params, ret):
        methods.append({"name": name, "attrs": [], "lifetimes": [], "self": ["ref", None, False], "params": params, "ret": ret})

    for k, T in enumerate(payloads + out_only):
        for sp in ("std", "dip"):
            if T not in out_only:
                add("%s_in_%d" % (sp, k), [["x", ["opt", copy.deepcopy(T), sp], []], ["tail", ["prim", "u16"], []]], ["prim", "u8"])
            add("%s_out_%d" % (sp, k), [], ["opt", copy.deepcopy(T), sp])
        if T not in out_only:
            twins.append(("std_in_%d" % k, "dip_in_%d" % k))
        twins.append(("std_out_%d" % k, "dip_out_%d" % k))
        # results with every unit/non-unit combination of this payload and another one
        E = draw(st.sampled_from(payloads + out_only))
        for ri, (ok, err) in enumerate([(T, E), (["unit"], E), (T, ["unit"]), (["unit"], ["unit"])]):
            for sp in ("std", "dip"):
                add("%s_res_%d_%d" % (sp, k, ri), [], ["result", copy.deepcopy(ok), copy.deepcopy(err), sp])
            twins.append(("std_res_%d_%d" % (k, ri), "dip_res_%d_%d" % (k, ri)))
        # the same unit-Ok results on methods that also return text through a DiplomatWrite (the success value travels in the
        # writer, the wire encoding of the result is unchanged)
        for sp in ("std", "dip"):
            add("%s_resw_%d" % (sp, k), [["dv_w", ["write"], []]], ["result", ["unit"], copy.deepcopy(E), sp])
        twins.append(("std_resw_%d" % k, "dip_resw_%d" % k))
        same_body.append(("std_res_%d_1" % k, "std_resw_%d" % k))
    # by-value payloads spelled through `Self` on their own type: Option<Self> / DiplomatOption<Self> / Option<TypeName>
    for k, T in enumerate([t for t in payloads if t[0] in ("struct", "enum")]):
        owner = next(i for i in items if i["name"] == T[1])
        selfT = copy.deepcopy(T) + ["Self"]
        ms = []
        for nm, ty in (("selfopt_named_%d" % k, ["opt", copy.deepcopy(T), "std"]), ("selfopt_std_%d" % k, ["opt", copy.deepcopy(selfT), "std"]), ("selfopt_dip_%d" % k, ["opt", copy.deepcopy(selfT), "dip"])):
            ms.append({"name": nm, "attrs": [], "lifetimes": [], "self": None, "params": [["x", ty, []], ["tail", ["prim", "u16"], []]], "ret": ["prim", "u8"]})
        owner["impls"].append({"attrs": [], "methods": ms})
        twins.append(("selfopt_named_%d" % k, "selfopt_std_%d" % k))
        twins.append(("selfopt_std_%d" % k, "selfopt_dip_%d" % k))
    add("optref_in", [["x", ["opt", ["ref", None, False, host["name"], []], "std"], []], ["tail", ["prim", "i64"], []]], ["prim", "bool"])
    # the same optional pointer spelled through `Self`
    add("optself_in", [["x", ["opt", ["ref", None, False, host["name"], [], "Self"], "std"], []], ["tail", ["prim", "i64"], []]], ["prim", "bool"])
    twins.append(("optref_in", "optself_in"))
    # optional strings and slices (single spelling): {view, is_ok}, None must arrive as None
    add("optstr_in", [["x", ["opt", ["str", None, "utf8", "std"], "std"], []], ["tail", ["prim", "u16"], []]], ["prim", "u8"])
    add("optstr8_in", [["x", ["opt", ["str", None, "str8", "std"], "std"], []]], ["prim", "u8"])
    add("optbytes_in", [["x", ["opt", ["slice", None, False, "u8", "std"], "std"], []], ["tail", ["prim", "i32"], []]], ["prim", "bool"])
    add("optwords_in", [["x", ["opt", ["slice", None, False, "u32", "std"], "std"], []]], ["prim", "u8"])
    # a unit payload: Option<()> / DiplomatOption<()> carries only the flag
    add("std_optunit_out", [], ["opt", ["unit"], "std"])
    add("dip_optunit_out", [], ["opt", ["unit"], "dip"])
    twins.append(("std_optunit_out", "dip_optunit_out"))
    add("optbox_out", [], ["opt", ["box", host["name"], []], "std"])
    methods.append({"name": "optref_out", "attrs": [], "lifetimes": [["a", []]], "self": ["ref", "a", False], "params": [], "ret": ["opt", ["ref", "a", False, host["name"], []], "std"]})
    methods.append({"name": "optmut_out", "attrs": [], "lifetimes": [["a", []]], "self": ["ref", "a", True], "params": [], "ret": ["opt", ["ref", "a", True, host["name"], []], "std"]})
    # struct-field position
    holder = {"kind": "struct", "name": "DvHolder", "attrs": [], "out": False, "lifetimes": [["a", []]],
              "fields": [["lead", ["prim", "u8"], []]] + [["f%d" % k, ["opt", copy.deepcopy(T), "dip"], []] for k, T in enumerate(payloads[:3])] + [["ptr", ["opt", ["ref", "a", False, host["name"], []], "std"], []]],
              "impls": []}
    items.append(holder)
    methods.append({"name": "holder_in", "attrs": [], "lifetimes": [], "self": ["ref", None, False], "params": [["h", ["struct", "DvHolder", [None]], []]], "ret": None})
    methods.append({"name": "holder_out", "attrs": [], "lifetimes": [["a", []]], "self": ["ref", "a", False], "params": [], "ret": ["struct", "DvHolder", ["a"]]})
    host["impls"] = [{"attrs": [], "methods": methods}]
    ir.default_order(prog["modules"][0])
    e2e.add_support_methods(prog)
    plan = e2e.plan_calls(draw, prog, 3)
    # twins get identical call vectors
    by_name = {p_["method"]: p_ for p_ in plan if p_["type"] == host["name"] or p_["method"].startswith("selfopt_")}
    for a, b in twins:
        by_name[b]["calls"] = copy.deepcopy(by_name[a]["calls"])
        for c in by_name[b]["calls"]:
            pass
    prog["_same_body"] = same_body
    return prog, plan, twins, host["name"]


def typedefs(cdir):
    out = {}
    for fn in os.listdir(cdir):
        if fn.endswith(".h"):
            for m in re.finditer(r"typedef struct (\w+) \{(.*?)\}\s*\1;", open(os.path.join(cdir, fn)).read()):
                out[m.group(1)] = re.sub(r"\s+", " ", m.group(2)).strip()
    return out


def decl_identity(prog, twins, host, cdir, protos):
    bad = []
    tds = typedefs(cdir)
    syms = {}
    for mod, it, impl, m in ir.all_methods(prog):
        if it["name"] == host or m["name"].startswith("selfopt_"):
            syms[m["name"]] = naming.method_symbol(mod, it, impl, m)
    for a, b in twins:
        sa, sb = syms[a], syms[b]
        if sa not in protos or sb not in protos:
            bad.append("twin %s/%s: prototype missing" % (a, b))
            continue
        (ra, pa), (rb, pb) = protos[sa], protos[sb]
        norm = lambda x, s_: x.replace(s_, "SYM")
        if [t for t, _ in pa] != [t for t, _ in pb]:
            bad.append("twin %s/%s: parameter types differ: %s vs %s" % (a, b, [t for t, _ in pa], [t for t, _ in pb]))
        if norm(ra, sa) != norm(rb, sb):
            bad.append("twin %s/%s: return types differ: %s vs %s" % (a, b, ra, rb))
        elif ra in tds and rb in tds and tds[ra] != tds[rb]:
            bad.append("twin %s/%s: result typedef bodies differ: {%s} vs {%s}" % (a, b, tds[ra], tds[rb]))
    # a write parameter does not change the record a Result<(), E> comes back in
    for a, b in prog.get("_same_body", []):
        if syms.get(a) in protos and syms.get(b) in protos:
            ra, rb = protos[syms[a]][0], protos[syms[b]][0]
            if ra in tds and rb in tds and tds[ra] != tds[rb]:
                bad.append("%s / %s: the same Result<(), E> is declared as {%s} without and {%s} with a DiplomatWrite parameter" % (a, b, tds[ra], tds[rb]))
    return bad


def nontrivial_prog(prog):
    for _, it in ir.all_items(prog):
        if it["kind"] == "enum" and any(v < 0 for _, v in S.enum_values(it)):
            return True
        if it["kind"] == "struct" and c01.padded_struct({"modules": [{"items": [it]}]}):
            return True
    return False


def worker(widx, seed, params):
    art = build.ensure_repo_artifacts()
    work = build.workdir("c10-w%d" % widx)
    acc = pbt.Acc("C10", max_violations=5)

    def body(case):
        if acc.full():
            return
        prog, plan, twins, host = case
        fails, res = c01.evaluate(art, work, prog, plan)
        # the same program and call vectors through the generated C++ API (every third program): std::optional arguments and
        # results must behave the same whichever spelling the Rust side uses, std::nullopt included
        if res["status"] == "ran" and not fails and zlib.crc32(ir.dumps(prog).encode()) % 3 == 0:
            cw = os.path.join(work, "cpp-leg")
            os.makedirs(cw, exist_ok=True)
            f2, info = c02.evaluate(art, cw, prog, plan, stds=("c++17",))
            acc.labels["cpp-leg:" + str(info.get("c++17"))] += 1
            for sig_, msg_ in f2:
                fails.append(("cpp-" + sig_, msg_))
        if res["status"] != "ran" and not fails:
            acc.labels["not-accepted:" + res["status"]] += 1
            return
        if res["status"] == "ran":
            for b in decl_identity(prog, twins, host, os.path.join(work, "c"), res["protos"])[:2]:
                fails.append(("declaration", b))
        nt = nontrivial_prog(prog)
        for p_ in plan:
            for k, c in enumerate(p_["calls"]):
                unit_ok_err = False
                acc.case([ir.dumps(prog), p_["method"], c], nt or "_res_" in p_["method"] and p_["method"].endswith("_1"), ["twin-call" if ("std_" in p_["method"] or "dip_" in p_["method"]) else "pointer-or-field-call"],
                         sample={"method": p_["method"], "call": c})
        for sig, msg in fails:
            s2 = "%s|%s" % (sig, re.sub(r"\d+", "N", msg.split("\n")[0])[:50])
            if any(v["signature"].split("|")[0] == sig for v in acc.violations):
                continue
            acc.violation("%s\n--- lib.rs (bridge part) ---\n%s" % (msg, ir.render_program(prog)[:3500]), {"program": prog, "plan": plan, "twins": twins, "host": host}, signature=s2)

    pbt.explore(cases(), body, params["n"], seed)
    build.rm_workdir(work)
    return acc.result()


def run(ctx):
    n = 8 if ctx.quick else 200
    m = pbt.run_workers("checks.c10", "worker", 14, ctx.seed, {"n": n})
    cov = {"evaluations": m["evaluations"], "distinct_nontrivial": m["distinct_nontrivial"], "rule": RULE, "samples": m["samples"], "labels": m["labels"]}
    return {"coverage": cov, "assumptions": ASSUME, "violations": m["violations"]}


def replay(ctx):
    art = build.ensure_repo_artifacts()
    c = json.load(open(ctx.replay))["case"]
    work = build.workdir("c10-replay")
    fails, res = c01.evaluate(art, work, c["program"], c["plan"])
    if res["status"] == "ran":
        for b in decl_identity(c["program"], [tuple(x) for x in c["twins"]], c["host"], os.path.join(work, "c"), res["protos"]):
            fails.append(("declaration", b))
    build.rm_workdir(work)
    for s_, m in fails:
        print(s_, m[:1500])
    return {"violations": [{"replay": ctx.replay, "message": m[:1500]} for s_, m in fails]}
