"""C17 — configuration sources combine with the documented precedence (toml < --config < #[diplomat::config])."""
import json, os, re
from hypothesis import strategies as st
from .. import build, pbt, tool, findings

RULE = ("Hypothesis-generated assignments: for a drawn (backend, key), each of the three sources (config.toml in kebab- or snake-case, --config, "
        "#[diplomat::config] on a top-level struct / mod / impl) independently sets the shared key, the key scoped to this backend, and/or the key scoped to "
        "another backend, each to a distinct value; half of the cases also set one other key of the backend once, in one source (a bystander that must keep its value); one run in four names the target by its other accepted command-line spelling (py-nanobind, cpp2, kotlin2, ...). Oracle: a reference precedence model picks the effective value; the output directory must be byte-identical "
        "to the canonical run that passes only that value with --config, and for lib_name / kotlin.domain the value is additionally observed directly "
        "(Kotlin package path and Native.load(\"...\"), nanobind <lib>_ext.cpp). A case = one assignment. Non-trivial: >= 2 sources set a relevant key with different values. "
        "Distinct = distinct (backend, key, assignment).")
ASSUME = [
    "a language-scoped key set by a weaker source still overrides the shared key set by a stronger source (read literally from 'a language-scoped key overrides the shared key'; also what the documentation's example shows)",
    "the canonical single-source --config run is the base case; it is cross-validated by direct observation for lib_name and kotlin.domain",
    "values are drawn from identifiers, dotted names and booleans; strings that are themselves TOML literals of another type (e.g. lib_name=1.5) are out of domain",
]

SRC_RANK = {"toml": 0, "cli": 1, "attr": 2}

BASE = '''#[diplomat::bridge]
pub mod ffi {
    #[diplomat::opaque]
    pub struct Op(u8);
    pub struct St {
        pub a: u8,
        pub b: u32,
    }
    impl Op {
        #[diplomat::demo(default_constructor)]
        pub fn make() -> Box<Op> { todo!() }
        pub fn take(&self, s: St) -> St { todo!() }
        pub fn name(&self, w: &mut DiplomatWrite) { todo!() }
    }
    impl St {
        pub fn total(self) -> u32 { todo!() }
%s    }
}
'''
CB = "        pub fn cb(self, f: impl Fn(&Op)) { todo!() }\n"

# key -> (kind, backends, scoped?, required default per backend)
KEYS = {
    "lib_name": dict(kind="ident", backends=["kotlin", "nanobind"], scoped=True),
    "unsafe_references_in_callbacks": dict(kind="bool", backends=["c", "cpp", "nanobind", "kotlin"], scoped=True, needs_cb=True),
    "kotlin.domain": dict(kind="dotted", backends=["kotlin"], scoped=False),
    "kotlin.use_finalizers_not_cleaners": dict(kind="bool", backends=["kotlin"], scoped=False),
    "js.abi": dict(kind="abi", backends=["js"], scoped=False),
    "demo_gen.module_name": dict(kind="ident", backends=["demo_gen"], scoped=False),
    "demo_gen.relative_js_path": dict(kind="path", backends=["demo_gen"], scoped=False),
    "demo_gen.explicit_generation": dict(kind="bool", backends=["demo_gen"], scoped=False),
    "demo_gen.hide_default_renderer": dict(kind="bool", backends=["demo_gen"], scoped=False),
}
SCOPABLE = ["kotlin", "nanobind", "js", "demo_gen"]  # prefixes Config::set understands
REQUIRED = {"kotlin": {"lib_name": "reqlib", "kotlin.domain": "dev.required"}, "nanobind": {"lib_name": "reqlib"}}


def values(kind):
    if kind == "ident":
        return st.sampled_from(["alpha", "beta_2", "gammaLib", "delta9", "epsilon_x", "zeta"])
    if kind == "dotted":
        return st.sampled_from(["org.aaa", "com.bbb.ccc", "net.ddd", "io.eee.fff", "dev.ggg"])
    if kind == "path":
        return st.sampled_from(["./api/", "../bindings/", "./x/y/"])
    if kind == "abi":
        return st.sampled_from(["spec", "legacy"])
    return st.booleans()


@st.composite
def cases(draw):
    key = draw(st.sampled_from(sorted(KEYS)))
    info = KEYS[key]
    backend = draw(st.sampled_from(info["backends"]))
    forms = ["shared"]
    bare = key.split(".")[-1]
    if info["scoped"]:
        if backend in SCOPABLE:
            forms.append("scoped")
        forms.append("other")
    else:
        forms = ["scoped", "other"]  # the key only exists in scoped form; "other" = same sub-key under another language
    assign = []
    for src in ("toml", "cli", "attr"):
        for form in forms:
            if draw(st.booleans()):
                v = draw(values(info["kind"]))
                assign.append({"source": src, "form": form, "value": v})
    others = [b for b in SCOPABLE if b != backend and b != key.split(".")[0]]
    other_lang = draw(st.sampled_from(others))
    style = {"kebab": draw(st.booleans()), "attr_on": draw(st.sampled_from(["struct", "mod", "impl"])), "attr_quoted": draw(st.booleans()),
             "one_attr": draw(st.booleans())}
    # a bystander: one more key of this backend, set once in one source; it must keep its value whatever happens to `key`
    bystander = None
    others2 = [k for k in sorted(KEYS) if k != key and backend in KEYS[k]["backends"] and not (KEYS[k].get("needs_cb") and not info.get("needs_cb"))]
    if others2 and draw(st.booleans()):
        k2 = draw(st.sampled_from(others2))
        bystander = {"key": k2, "source": draw(st.sampled_from(["toml", "cli", "attr"])), "value": draw(values(KEYS[k2]["kind"]))}
    # the command line also accepts the spellings `py-nanobind` and a trailing `2` (`cpp2`, `kotlin2`): same backend, same keys
    target = backend
    if draw(st.integers(0, 3)) == 0:
        target = "py-nanobind" if backend == "nanobind" else (backend + "2" if backend in ("c", "cpp", "kotlin", "js") else backend)
    return {"backend": backend, "target": target, "key": key, "bare": bare, "assign": assign, "other_lang": other_lang, "style": style, "bystander": bystander}


def full_key(case, form):
    key, backend = case["key"], case["backend"]
    info = KEYS[key]
    if info["scoped"]:
        if form == "shared":
            return key
        if form == "scoped":
            return "%s.%s" % (backend, key)
        return "%s.%s" % (case["other_lang"], key)
    if form == "scoped":
        return key
    return "%s.%s" % (case["other_lang"], case["bare"])


def effective(case):
    """reference precedence model"""
    rel = [a for a in case["assign"] if a["form"] == "scoped"]
    if not rel:
        rel = [a for a in case["assign"] if a["form"] == "shared"]
    if not rel:
        return None
    best = max(rel, key=lambda a: SRC_RANK[a["source"]])
    return best["value"]


def lit(v, toml=True):
    if isinstance(v, bool):
        return "true" if v else "false"
    return '"%s"' % v


def render_inputs(case, work):
    """writes lib.rs + config.toml; returns (entry, config_file, cli args)"""
    key = case["key"]
    info = KEYS[key]
    backend = case["backend"]
    # toml
    top, tables = [], {}
    for a in case["assign"]:
        if a["source"] != "toml":
            continue
        fk = full_key(case, a["form"])
        parts = fk.split(".")
        name = parts[-1].replace("_", "-") if case["style"]["kebab"] else parts[-1]
        if len(parts) == 1:
            top.append("%s = %s" % (name, lit(a["value"])))
        else:
            tname = parts[0].replace("_", "-") if case["style"]["kebab"] else parts[0]
            tables.setdefault(tname, []).append("%s = %s" % (name, lit(a["value"])))
    by = case.get("bystander")
    if by and by["source"] == "toml":
        parts = by["key"].split(".")
        name = parts[-1].replace("_", "-") if case["style"]["kebab"] else parts[-1]
        if len(parts) == 1:
            top.append("%s = %s" % (name, lit(by["value"])))
        else:
            tname = parts[0].replace("_", "-") if case["style"]["kebab"] else parts[0]
            tables.setdefault(tname, []).append("%s = %s" % (name, lit(by["value"])))
    toml_text = "\n".join(top) + "\n"
    for t, lines in tables.items():
        toml_text += "\n[%s]\n%s\n" % (t, "\n".join(lines))
    cfg_file = os.path.join(work, "config.toml")
    open(cfg_file, "w").write(toml_text)
    # cli: required keys first (lowest among cli entries is irrelevant: different keys), then the assignment
    cli = []
    req = dict(REQUIRED.get(backend, {}))
    for k, v in req.items():
        if k != key and not (by and by["key"] == k):
            cli.append("%s=%s" % (k, v))
    if by and by["source"] == "cli":
        cli.append("%s=%s" % (by["key"], lit(by["value"]) if isinstance(by["value"], bool) else by["value"]))
    for a in case["assign"]:
        if a["source"] == "cli":
            v = a["value"]
            cli.append("%s=%s" % (full_key(case, a["form"]), lit(v) if isinstance(v, bool) else v))
    # attribute
    attrs = []
    for a in case["assign"]:
        if a["source"] == "attr":
            v = a["value"]
            if isinstance(v, bool):
                val = lit(v)
            elif case["style"]["attr_quoted"] or not re.fullmatch(r"[A-Za-z_][A-Za-z0-9_]*", str(v)):
                val = '"%s"' % v
            else:
                val = str(v)
            attrs.append("%s = %s" % (full_key(case, a["form"]), val))
    if by and by["source"] == "attr":
        v = by["value"]
        attrs.insert(0, "%s = %s" % (by["key"], lit(v) if isinstance(v, bool) else '"%s"' % v))
    src = ""
    if attrs:
        groups = [", ".join(attrs)] if case["style"]["one_attr"] else attrs
        carrier = {"struct": "struct DvCfg;", "mod": "mod dv_cfg_mod {}", "impl": "impl DvCfgTy {}"}[case["style"]["attr_on"]]
        for g in groups:
            src += "#[diplomat::config(%s)]\n" % g
        src += carrier + "\n\n"
    src += BASE % (CB if info.get("needs_cb") else "")
    entry = os.path.join(work, "lib.rs")
    open(entry, "w").write(src)
    return entry, cfg_file, cli, src, toml_text


def canonical(case, work, eff):
    backend, key = case["backend"], case["key"]
    info = KEYS[key]
    cli = []
    req = dict(REQUIRED.get(backend, {}))
    by = case.get("bystander")
    for k, v in req.items():
        if k != key and not (by and by["key"] == k):
            cli.append("%s=%s" % (k, v))
    if by:
        cli.append("%s=%s" % (by["key"], lit(by["value"]) if isinstance(by["value"], bool) else by["value"]))
    if eff is not None:
        cli.append("%s=%s" % (key, lit(eff) if isinstance(eff, bool) else eff))
    elif key in req:
        cli.append("%s=%s" % (key, req[key]))
    entry = os.path.join(work, "canon.rs")
    open(entry, "w").write(BASE % (CB if info.get("needs_cb") else ""))
    return entry, cli


def check(art, work, case):
    eff = effective(case)
    backend, key = case["backend"], case["key"]
    req = REQUIRED.get(backend, {})
    if eff is None and key in req:
        # a required key nobody sets: give it through the weakest source so the run is meaningful
        case = dict(case)
        case["assign"] = case["assign"] + [{"source": "toml", "form": "scoped" if not KEYS[key]["scoped"] else "shared", "value": req[key]}]
        eff = effective(case)
    entry, cfg_file, cli, src, toml_text = render_inputs(case, work)
    r1 = tool.run_backend(art, case.get("target", backend), entry, os.path.join(work, "o1"), config=cli, config_file=cfg_file)
    centry, ccli = canonical(case, work, eff)
    r2 = tool.run_backend(art, backend, centry, os.path.join(work, "o2"), config=ccli, config_file=os.path.join(work, "none.toml"))
    desc = "backend %s (invoked as `%s`) key %s\nconfig.toml:\n%s\n--config %s\nlib.rs head:\n%s\nexpected effective value (toml < cli < attribute; scoped over shared): %r" % (
        backend, case.get("target", backend), key, toml_text, cli, src.split("#[diplomat::bridge]")[0], eff)
    if r2.classify() == "panic" and "Missing required field" not in r2.stderr:
        return eff, "canonical run crashed: %s\n%s" % (r2.stderr[-300:], desc)
    if r1.classify() != r2.classify():
        return eff, "outcome `%s` differs from the canonical run's `%s` (%s)\n%s\n%s" % (r1.classify(), r2.classify(), ccli, (r1.stderr or r2.stderr)[-400:], desc)
    if r1.ok:
        f1, f2 = r1.files(), r2.files()
        diff = [k for k in sorted(set(f1) | set(f2)) if f1.get(k) != f2.get(k)]
        if diff:
            return eff, "output differs from the canonical run (--config %s): %s\n%s" % (ccli, diff[:6], desc)
        # direct observation of the base case
        if key == "lib_name" and backend == "kotlin":
            want = str(eff)
            if not any(("/%s/" % want) in ("/" + k) for k in f1) or not any(('Native.load("%s"' % want).encode() in v for v in f1.values()):
                return eff, "Kotlin output does not use lib_name %r (paths %s)\n%s" % (want, sorted(f1)[:4], desc)
        if key == "lib_name" and backend == "nanobind":
            if ("%s_ext.cpp" % eff) not in f1:
                return eff, "nanobind output has no %s_ext.cpp (files %s)\n%s" % (eff, sorted(f1)[:4], desc)
        if key == "kotlin.domain":
            want = str(eff).replace(".", "/")
            if not any(want + "/" in k for k in f1):
                return eff, "Kotlin package path does not contain %s (paths %s)\n%s" % (want, sorted(f1)[:4], desc)
    return eff, None


def worker(widx, seed, params):
    art = build.ensure_repo_artifacts()
    work = build.workdir("c17-w%d" % widx)
    acc = pbt.Acc("C17", max_violations=6)

    def body(case):
        if acc.full():
            return
        eff, msg = check(art, work, case)
        rel = [a for a in case["assign"] if a["form"] in ("scoped", "shared")]
        srcs = {a["source"] for a in rel}
        vals = {json.dumps(a["value"]) for a in rel}
        nt = len(srcs) >= 2 and len(vals) >= 2
        labels = ["key:" + case["key"], "backend:" + case["backend"], "sources:%d" % len(srcs)]
        if case.get("bystander"):
            labels.append("bystander-key:" + case["bystander"]["source"])
        if case.get("target", case["backend"]) != case["backend"]:
            labels.append("target-alias")
        if any(a["form"] == "scoped" for a in rel) and any(a["form"] == "shared" for a in rel):
            labels.append("scoped-and-shared")
        if any(a["form"] == "other" for a in case["assign"]):
            labels.append("other-language-key-present")
        acc.case(case, nt, labels, sample={"backend": case["backend"], "key": case["key"], "assign": case["assign"], "effective": eff})
        if msg:
            win = max(rel, key=lambda a: SRC_RANK[a["source"]])["source"] if rel else "none"
            sig = "%s|%s|%s" % (case["key"], msg.split(" ")[0], win)
            acc.violation(msg, case, signature=sig)

    pbt.explore(cases(), body, params["n"], seed)
    build.rm_workdir(work)
    return acc.result()


def run(ctx):
    n = 160 if ctx.quick else 2500
    m = pbt.run_workers("checks.c17", "worker", 14, ctx.seed, {"n": n})
    cov = {"evaluations": m["evaluations"], "distinct_nontrivial": m["distinct_nontrivial"], "rule": RULE, "samples": m["samples"], "labels": m["labels"]}
    return {"coverage": cov, "assumptions": ASSUME, "violations": m["violations"]}


def replay(ctx):
    art = build.ensure_repo_artifacts()
    case = json.load(open(ctx.replay))["case"]
    work = build.workdir("c17-replay")
    eff, msg = check(art, work, case)
    build.rm_workdir(work)
    print(msg or "replay ok: effective value %r" % (eff,))
    return {"violations": [{"replay": ctx.replay, "message": msg}] if msg else []}
