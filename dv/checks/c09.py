"""C09 — whatever the tool accepts builds: macro expansion, C headers, C++ headers, JS modules."""
import json, os, re
from hypothesis import strategies as st
from .. import build, pbt, tool, compilers, reduce as red, findings
from ..gen import ir, strategies as S
from .c15 import STEER

RULE = ("Hypothesis-generated programs valid for the c, cpp and js profiles at once (type cycles through opaques/out-structs, 1-3 bridge modules, "
        "keyword identifiers in every identifier position, abi_rename on modules/types/impls/methods, renames, C++ namespaces) plus the repository's "
        "feature_tests and example bridges. Oracles: rustc type-checks the crate through the real proc macro; every generated .h alone as C11 (gcc), "
        "every .hpp alone as C++17 and C++20 (g++), all headers in one TU in a generated random order, every .mjs imported by Node with a stub wasm module "
        "(ESM linking decides that every import refers to a generated file and a name it exports). A case = one (program, stage). "
        "Non-trivial: program with a type cycle, a namespaced type used from another type, or a keyword-named parameter/field/method. "
        "Distinct = distinct (program, stage).")
ASSUME = [
    "gcc/g++ 12 -fsyntax-only and node 20 stand for 'compiles' / 'parses'; clang is added in the thorough tier",
    "type names avoid the backends' documented 'please rename' lists; those are diagnostics, not violations",
    "backend diagnostics (exit 1 with an error list) mean the tool did not accept the program for that backend; that stage is skipped",
]


def has_cycle(prog):
    graph = {}
    for mod, it in ir.all_items(prog):
        deps = set()
        for f in it.get("fields", []):
            deps.update(ir.named_types(f[1]))
        for impl in it.get("impls", []):
            for m in impl["methods"]:
                for q in m["params"]:
                    deps.update(ir.named_types(q[1]))
                if m["ret"]:
                    deps.update(ir.named_types(m["ret"]))
        deps.discard(it["name"])
        graph[it["name"]] = deps
    for a in graph:
        for b in graph[a]:
            if a in graph.get(b, ()):
                return True
    return False


def has_keyword_ident(prog):
    kw = set(S.KEYWORD_IDENTS)
    for mod, it in ir.all_items(prog):
        if any(f[0] in kw for f in it.get("fields", [])):
            return True
    for _, _, _, m in ir.all_methods(prog):
        if m["name"] in kw or any(q[0] in kw for q in m["params"]):
            return True
    return False


@st.composite
def cases(draw):
    over = dict(keywords=draw(st.booleans()), modules=draw(st.sampled_from([1, 1, 2, 3])), max_types=7, max_methods=3, opt_slice_returns=True)
    over.update(STEER.get("js", {}))
    # one third of the programs use what only c/cpp accept (callbacks, &[&str], 'static slices); js rejects those and is skipped
    bset = draw(st.sampled_from([["c", "cpp", "js"], ["c", "cpp", "js"], ["c", "cpp"]]))
    if bset == ["c", "cpp"]:
        over["cb_rate"] = 4
    p = S.profile_for(bset, **over)
    prog = draw(S.programs(p))
    if draw(st.integers(0, 2)) == 0:
        S.add_special_methods(draw, prog)       # accessors, constructors, stringifiers, comparators, indexers, iterators
    if bset == ["c", "cpp"] and draw(st.integers(0, 2)) == 0:
        # bridged traits (accepted by the C backend only; cpp rejects the program and is skipped): one or two of them
        S.add_trait(draw, prog, "DvTrait", options=True)
        if draw(st.booleans()):
            S.add_trait(draw, prog, "DvOtherTrait", options=True)
    if draw(st.integers(0, 3)) == 0:
        S.add_rust_links(draw, prog)
    placed = []
    if draw(st.booleans()):
        placed = draw(S.decorate(prog, disable=False, namespace=True))
    # two types in different namespaces share their C++ name (a quarter of the programs)
    free = [it for _, it in ir.all_items(prog) if not any("namespace" in a or "rename" in a for a in it["attrs"])]
    if len(free) >= 2 and draw(st.integers(0, 3)) == 0:
        two = draw(st.permutations(free))[:2]
        for it, ns in zip(two, draw(st.sampled_from([("ns1", "ns2"), ("ns1", "ns1::inner"), ("outer::mid::deep", "ns2")]))):
            it["attrs"].append('#[diplomat::attr(auto, namespace = "%s")]' % ns)
            it["attrs"].append('#[diplomat::attr(cpp, rename = "DvSharedName")]')
        placed = list(placed) + ["same-cpp-name-in-two-namespaces"]
    # ordinary derives on bridge enums (the macro adds Clone and Copy to every enum itself)
    derived = False
    for _, it in ir.all_items(prog):
        if it["kind"] == "enum" and draw(st.integers(0, 3)) == 0:
            d = draw(st.sampled_from(["Clone, Copy", "Copy, Clone, PartialEq, Eq", "Debug", "Clone", "Debug, PartialEq", "core::clone::Clone, core::marker::Copy", "Hash, PartialEq, Eq"]))
            if draw(st.booleans()):
                it["attrs"].insert(0, "#[derive(%s)]" % d)
            else:
                it["attrs"].append("#[derive(%s)]" % d)
            if "Clone" not in d and "Copy" not in d and draw(st.booleans()):
                # a second derive attribute carrying what the first one lacks
                it["attrs"].append("#[derive(%s)]" % draw(st.sampled_from(["Clone, Copy", "Copy, Clone", "Clone"])))
            derived = True
    if derived:
        placed = list(placed) + ["derive-on-enum"]
    order_seed = draw(st.integers(0, 2 ** 30))
    return prog, placed, order_seed


def first_error(text):
    for l in text.split("\n"):
        if "error" in l.lower():
            l = re.sub(r"/[^\s:]*/", "", l)
            l = re.sub(r"^[\w.]+\.(h|hpp|mjs|c|cpp):", "FILE:", l)
            l = re.sub(r"IMPORT-FAIL [\w.]+", "IMPORT-FAIL FILE", l)
            l = re.sub(r"\b\d+\b", "N", l)
            l = re.sub(r"'[^']*'", "'_'", l)
            l = re.sub(r"‘[^’]*’", "'_'", l)
            l = re.sub(r"`[^`]*`", "`_`", l)
            return l.strip()[:160]
    return text.strip().split("\n")[-1][:160] if text.strip() else "no output"


def shuffled(xs, seed):
    import random
    r = random.Random(seed)  # deterministic function of a Hypothesis-drawn integer
    xs = list(xs)
    r.shuffle(xs)
    return xs


def check_program(art, work, prog, order_seed, stages=("rustc", "c", "cpp", "js"), stds=("c++17", "c++20"), fast=False):
    """returns list of (stage, message, detail) failures and list of stages evaluated"""
    src = ir.render_program(prog)
    d = os.path.join(work, "prog")
    if os.path.exists(d):
        import shutil
        shutil.rmtree(d)
    os.makedirs(d)
    entry = os.path.join(d, "lib.rs")
    open(entry, "w").write(src)
    fails, done = [], []
    accepted = {}
    for b in ("c", "cpp", "js"):
        if b in stages:
            r = tool.run_backend(art, b, entry, os.path.join(d, "out-" + b), config=["js.abi=spec"] if b == "js" else [])
            accepted[b] = r
    if all((not r.ok) for r in accepted.values()) and accepted:
        return src, fails, done
    if "rustc" in stages and any(r.ok for r in accepted.values()):
        ok, err = compilers.rustc(art, entry, os.path.join(d, "libdv.rmeta"))
        done.append("rustc")
        if not ok:
            fails.append(("rustc", first_error(err), err[-1500:]))
    if "c" in accepted and accepted["c"].ok:
        inc = os.path.join(d, "out-c")
        hs = sorted(f for f in os.listdir(inc) if f.endswith(".h"))
        for h in hs:
            ok, err = compilers.cc_syntax("gcc", "c11", inc, header=h, workdir=d)
            done.append("c:" + h)
            if not ok:
                fails.append(("c-header-alone", first_error(err), "%s: %s" % (h, err[-1200:])))
                break
        tu = "".join('#include "%s"\n' % h for h in shuffled(hs, order_seed))
        ok, err = compilers.cc_syntax("gcc", "c11", inc, source_text=tu, workdir=d)
        done.append("c:all-in-random-order")
        if not ok:
            fails.append(("c-all-headers", first_error(err), tu + err[-1200:]))
    if "cpp" in accepted and accepted["cpp"].ok:
        inc = os.path.join(d, "out-cpp")
        hs = []
        for dp, _, fns in os.walk(inc):
            for f in fns:
                if f.endswith(".hpp"):
                    hs.append(os.path.relpath(os.path.join(dp, f), inc))
        hs.sort()
        broke = False
        for std in stds:
            for h in hs:
                if fast and h.endswith(".d.hpp"):
                    continue
                ok, err = compilers.cc_syntax("g++", std, inc, header=h, workdir=d)
                done.append("cpp:%s:%s" % (std, h))
                if not ok:
                    fails.append(("cpp-header-alone-" + std, first_error(err), "%s: %s" % (h, err[-1500:])))
                    broke = True
                    break
            if broke:
                break
        tu = "".join('#include "%s"\n' % h for h in shuffled(hs, order_seed + 1))
        ok, err = compilers.cc_syntax("g++", "c++20" if fast else stds[0], inc, source_text=tu, workdir=d)
        done.append("cpp:all-in-random-order")
        if not ok and not broke:
            fails.append(("cpp-all-headers", first_error(err), tu + err[-1500:]))
    if "js" in accepted and accepted["js"].ok:
        jsd = os.path.join(d, "out-js")
        for dp, _, fns in os.walk(jsd):
            for f in sorted(fns):
                if f.endswith(".mjs") and not fast:
                    ok, err = compilers.node_check(os.path.join(dp, f))
                    if not ok:
                        fails.append(("js-parse", first_error(err), "%s: %s" % (f, err[-800:])))
        compilers.install_js_stub(jsd)
        ok, out = compilers.node_import_all(jsd)
        done.append("js:import-all")
        if not ok:
            fails.append(("js-import", first_error(out.replace("IMPORT-FAIL", "error IMPORT-FAIL")), out[-1200:]))
    return src, fails, done


def worker(widx, seed, params):
    art = build.ensure_repo_artifacts()
    work = build.workdir("c09-w%d" % widx)
    acc = pbt.Acc("C09", max_violations=6)
    known = {f["signature"] for f in findings.known_for("C09")}

    def body(case):
        if acc.full():
            return
        prog, placed, order_seed = case
        fast = params.get("fast", False)
        src, fails, done = check_program(art, work, prog, order_seed, fast=fast, stds=("c++17",) if fast else ("c++17", "c++20"))
        nt = has_cycle(prog) or has_keyword_ident(prog) or "namespace:type" in placed
        labels = ["stage:" + s.split(":")[0] for s in done] + ["placed:" + x for x in set(placed)]
        if has_cycle(prog):
            labels.append("type-cycle")
        if has_keyword_ident(prog):
            labels.append("keyword-ident")
        if not done:
            acc.case([ir.dumps(prog)], False, ["not-accepted-by-any-backend"])
            return
        for s in done:
            acc.case([ir.dumps(prog), s], nt, [], sample={"stage": s, "lib_rs": src[:1500]})
        for l in labels:
            acc.labels[l] += 1
        for stage, msg, detail in fails:
            sig = "%s|%s" % (stage, msg)
            if sig in known:
                acc.extra["known:" + sig] += 1
                continue
            if any(v["signature"] == sig for v in acc.violations):
                continue
            st_need = ("rustc",) if stage == "rustc" else (stage.split("-")[0],)

            def fails_again(p2, sig=sig, st_need=st_need):
                _, f2, _ = check_program(art, work, p2, order_seed, stages=st_need + (("c",) if st_need == ("rustc",) else ()), fast=True)
                return any("%s|%s" % (a, b) == sig for a, b, _ in f2)

            small, _ = red.reduce(prog, fails_again, budget=60)
            ssrc, f2, _ = check_program(art, work, small, order_seed, stages=st_need + (("c",) if st_need == ("rustc",) else ()), fast=True)
            det = next((c for a, b, c in f2 if "%s|%s" % (a, b) == sig), detail)
            acc.violation("accepted program does not build at stage %s: %s\n%s\n--- lib.rs ---\n%s" % (stage, msg, det[-1500:], ssrc),
                          {"program": small, "order_seed": order_seed, "stage": stage}, signature=sig)

    pbt.explore(cases(), body, params["n"], seed)
    build.rm_workdir(work)
    return acc.result()


def corpus(art):
    """the repository's own bridges: generated C / C++ / JS must build too"""
    out = []
    work = build.workdir("c09-corpus")
    n = 0
    for name in ("feature_tests", "example"):
        entry = os.path.join(build.repo(), name, "src", "lib.rs")
        for b in ("c", "cpp", "js"):
            od = os.path.join(work, name + "-" + b)
            cf = os.path.join(build.repo(), name, "config.toml")
            r = tool.run_backend(art, b, entry, od, config=["js.abi=spec"] if b == "js" else [], cwd=os.path.join(build.repo(), name),
                                 config_file=cf if os.path.exists(cf) else None)
            if r.panicked:
                out.append(("corpus|%s|%s|panic" % (name, b), r.stderr[-600:]))
                continue
            if not r.ok:
                # the repository's own bridges are accepted by these backends (with their own config.toml)
                out.append(("corpus|%s|%s|not-accepted" % (name, b), r.stderr[-600:]))
                continue
            if b == "c":
                for h in sorted(f for f in os.listdir(od) if f.endswith(".h")):
                    n += 1
                    ok, err = compilers.cc_syntax("gcc", "c11", od, header=h, workdir=work)
                    if not ok:
                        out.append(("corpus|%s|c|%s" % (name, first_error(err)), h + ": " + err[-800:]))
                        break
            elif b == "cpp":
                hs = []
                for dp, _, fns in os.walk(od):
                    hs += [os.path.relpath(os.path.join(dp, f), od) for f in fns if f.endswith(".hpp") and not f.endswith(".d.hpp")]
                for std in ("c++17", "c++20"):
                    tu = "".join('#include "%s"\n' % h for h in sorted(hs))
                    n += 1
                    ok, err = compilers.cc_syntax("g++", std, od, source_text=tu, workdir=work)
                    if not ok:
                        out.append(("corpus|%s|cpp-%s|%s" % (name, std, first_error(err)), err[-800:]))
            else:
                compilers.install_js_stub(od)
                n += 1
                ok, o = compilers.node_import_all(od)
                if not ok:
                    out.append(("corpus|%s|js|%s" % (name, first_error(o.replace("IMPORT-FAIL", "error IMPORT-FAIL"))), o[-800:]))
    build.rm_workdir(work)
    return n, out


def run_probes(art):
    seen = []
    work = build.workdir("c09-probes")
    for f in findings.known_for("C09"):
        pr = f.get("probe")
        if not pr:
            continue
        d = os.path.join(work, "p%d" % len(seen))
        os.makedirs(d, exist_ok=True)
        entry = os.path.join(d, "lib.rs")
        open(entry, "w").write(pr["lib_rs"])
        bad = False
        if pr["stage"] == "rustc":
            ok, err = compilers.rustc(art, entry, os.path.join(d, "libdv.rmeta"))
            bad = not ok
        else:
            b = pr["stage"]
            r = tool.run_backend(art, b, entry, os.path.join(d, "out"), config=["js.abi=spec"] if b == "js" else [])
            if r.ok:
                od = os.path.join(d, "out")
                if b == "c":
                    bad = any(not compilers.cc_syntax("gcc", "c11", od, header=h, workdir=d)[0] for h in sorted(os.listdir(od)) if h.endswith(".h"))
                elif b == "cpp":
                    bad = any(not compilers.cc_syntax("g++", "c++17", od, header=h, workdir=d)[0] for h in sorted(os.listdir(od)) if h.endswith(".hpp") and not h.endswith(".d.hpp"))
                else:
                    compilers.install_js_stub(od)
                    bad = not compilers.node_import_all(od)[0]
        if bad:
            seen.append(f["what"])
    build.rm_workdir(work)
    return seen


def run(ctx):
    art = build.ensure_repo_artifacts()
    n = 10 if ctx.quick else 120
    m = pbt.run_workers("checks.c09", "worker", 14, ctx.seed, {"n": n, "fast": ctx.quick})
    ncorp, cfails = corpus(art)
    known = {f["signature"]: f for f in findings.known_for("C09")}
    known_seen = run_probes(art)
    for sig, det in cfails:
        if sig in known:
            known_seen.append(known[sig]["what"])
        else:
            d = os.path.join(build.VERIF, "replays", "C09")
            os.makedirs(d, exist_ok=True)
            p = os.path.join(d, "corpus-%d.json" % (abs(hash(sig)) % 10 ** 8))
            json.dump({"property": "C09", "signature": sig, "message": det, "case": {"corpus": sig}}, open(p, "w"), indent=1)
            m["violations"].append({"replay": p, "message": sig + "\n" + det, "signature": sig})
    for sig, f in known.items():
        if m["extra"].get("known:" + sig):
            known_seen.append(f["what"])
    cov = {"evaluations": m["evaluations"] + ncorp, "distinct_nontrivial": m["distinct_nontrivial"], "rule": RULE, "samples": m["samples"],
           "labels": m["labels"], "corpus_compilations": ncorp, "extra": m["extra"]}
    return {"coverage": cov, "assumptions": ASSUME, "violations": m["violations"], "known_seen": sorted(set(known_seen))}


def replay(ctx):
    art = build.ensure_repo_artifacts()
    c = json.load(open(ctx.replay))["case"]
    if "corpus" in c:
        n, cf = corpus(art)
        v = [{"replay": ctx.replay, "message": d} for s, d in cf if s == c["corpus"]]
        return {"violations": v}
    work = build.workdir("c09-replay")
    src, fails, done = check_program(art, work, c["program"], c["order_seed"])
    build.rm_workdir(work)
    for st_, msg, det in fails:
        print(st_, msg, "\n", det[-1500:])
    return {"violations": [{"replay": ctx.replay, "message": "%s: %s" % (a, b)} for a, b, _ in fails]}
