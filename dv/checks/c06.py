"""C06 — every backend calls exactly the symbols the Rust library exports, named by the documented scheme."""
import json, os, subprocess
from hypothesis import strategies as st
from .. import build, pbt, tool, compilers, findings, reduce as red
from ..gen import ir, strategies as S
from ..models import naming, cfg as cfgm
from ..parsers import symbols as sym
from .c15 import STEER, CONFIGS, kotlin_error_attrs

RULE = ("Hypothesis-generated programs valid for a drawn set of 2-4 backends, with abi_rename patterns (with and without {0}) placed at random on (a third of the programs also nest a second bridge module inside the first, which the enclosing module's pattern must not reach) "
        "modules / opaque types / impl blocks / methods, renames, and backend-conditional disables on impls and methods. The crate is compiled with the real "
        "proc macro and its object file read with nm; each backend's output is parsed for the native symbols it declares and calls. Oracles: nm set == reference "
        "naming model (Type_method / Type_destroy, nearest enclosing pattern wins); per backend, declared set == called set == model set of enabled methods and "
        "opaque destructors. A case = one (program, backend) or (program, nm). Non-trivial: at least one symbol differs from the default scheme. "
        "Distinct = distinct (program, backend).")
ASSUME = [
    "Dart/Kotlin/nanobind symbol use is read from the generated text (@ffi.Native symbol:, JNA Library interface funs, extern \"C\" blocks and capi:: calls)",
    "disable conditions in this check are limited to backend-name formulas; supports= formulas belong to C13",
    "demo_gen's symbol use is that of the JS bindings it generates under js/",
]


def add_demo_constructors(prog):
    for _, it in ir.all_items(prog):
        if it["kind"] == "opaque":
            lts = [l[0] for l in it.get("lifetimes", [])]
            m = {"name": "dv_demo_new", "attrs": ["#[diplomat::demo(default_constructor)]"], "lifetimes": [], "self": None, "params": [],
                 "ret": ["box", it["name"], lts]}
            it["impls"].append({"attrs": [], "methods": [m]})


def enabled_model(prog, backend):
    """symbols a backend must refer to: enabled methods + destructors of opaques"""
    out = set()
    for mod in prog["modules"]:
        for it in mod["items"]:
            if it["kind"] == "opaque":
                out.add(naming.dtor_symbol(mod, it))
            for impl in it.get("impls", []):
                for m in impl["methods"]:
                    dis = False
                    for a in m.get("attrs", []) + impl.get("attrs", []):
                        pa = cfgm.parse_attr(a)
                        if pa and pa[1] == "disable" and cfgm.evaluate(pa[0], backend, {}):
                            dis = True
                    if not dis:
                        out.add(naming.method_symbol(mod, it, impl, m))
    return out


NO_SUPPORTS_ATOMS = [a for a in S.CFG_ATOMS if "supports" not in a]


@st.composite
def cases(draw):
    k = draw(st.integers(2, 4))
    bs = draw(st.permutations(tool.BACKENDS))[:k]
    over = dict(modules=draw(st.sampled_from([1, 1, 2])), max_types=6, max_methods=4)
    for b in bs:
        over.update(STEER.get(b, {}))
    p = S.profile_for(bs, **over)
    prog = draw(S.programs(p))
    if "kotlin" in bs:
        kotlin_error_attrs(prog)
    if "demo_gen" in bs:
        add_demo_constructors(prog)
    if draw(st.integers(0, 2)) == 0:
        # a bridge module nested in the first one: it is a bridge of its own (the proc macro expands it separately), so the
        # enclosing module's abi_rename must not reach its symbols
        nested_methods = [{"name": "peek", "attrs": [], "lifetimes": [], "self": ["ref", None, False], "params": [], "ret": ["prim", "u8"]},
                          {"name": "dv_demo_new", "attrs": ["#[diplomat::demo(default_constructor)]"], "lifetimes": [], "self": None, "params": [], "ret": ["box", "DvNested", []]}]
        prog["modules"].append({"name": "dv_nested", "attrs": [], "uses": [], "nested_in": 0,
                                "items": [{"kind": "opaque", "name": "DvNested", "attrs": [], "lifetimes": [], "impls": [{"attrs": [], "methods": nested_methods}]}]})
    saved = S.CFG_ATOMS
    S.CFG_ATOMS = NO_SUPPORTS_ATOMS
    try:
        placed = draw(S.decorate(prog, density=3))
    finally:
        S.CFG_ATOMS = saved
    for m in prog["modules"]:
        ir.default_order(m)
    return sorted(bs), prog, placed


def nm_symbols(art, work, src):
    entry = os.path.join(work, "lib.rs")
    open(entry, "w").write(src)
    obj = os.path.join(work, "dv.o")
    ok, err = compilers.rustc(art, entry, obj, crate_type="lib", emit="obj", extra=["-C", "codegen-units=1"])
    if not ok:
        return None, err
    p = subprocess.run(["nm", "--defined-only", "-g", obj], stdout=subprocess.PIPE, text=True)
    names = set()
    for line in p.stdout.split("\n"):
        parts = line.split()
        if len(parts) == 3 and parts[1] in ("T", "t") and not parts[2].startswith("_"):
            names.add(parts[2])
    return names, ""


def check_case(art, work, bs, prog):
    """returns (failures [(kind, message)], per-backend outcome labels, nontrivial)"""
    src = ir.render_program(prog)
    fails, labels = [], []
    model_all = naming.exported(prog)
    default_all = set()
    for mod in prog["modules"]:
        for it in mod["items"]:
            if it["kind"] == "opaque":
                default_all.add(it["name"] + "_destroy")
            for impl in it.get("impls", []):
                for m in impl["methods"]:
                    default_all.add("%s_%s" % (it["name"], m["name"]))
    nt = model_all != default_all
    exported, err = nm_symbols(art, work, src)
    if exported is None:
        return src, [("rustc", "the crate does not compile: " + err[-600:])], ["rustc:fail"], nt
    labels.append("nm:ok")
    if any(m.get("nested_in") is not None for m in prog["modules"]):
        labels.append("nested-bridge-module" + (":under-abi-rename" if any("abi_rename" in a for a in prog["modules"][0].get("attrs", [])) else ""))
    if exported != model_all:
        fails.append(("nm", "exported symbols differ from the documented naming scheme: only in library %s, only in model %s" % (sorted(exported - model_all)[:6], sorted(model_all - exported)[:6])))
    for b in bs:
        d = os.path.join(work, "out-" + b)
        r = tool.run_backend(art, b, os.path.join(work, "lib.rs"), d, config=CONFIGS[b][0])
        labels.append("%s:%s" % (b, r.classify()))
        if not r.ok:
            continue
        s = sym.symbols(b, d)
        # demo_gen's bindings live under js/ and are produced by a nested run of the js backend
        want = enabled_model(prog, "js" if b == "demo_gen" else b)
        for what in ("declared", "referenced"):
            got = s[what]
            if got != want:
                fails.append((b, "%s backend: symbols %s differ from the enabled methods/destructors: extra %s, missing %s" % (b, what, sorted(got - want)[:6], sorted(want - got)[:6])))
                break
        missing = (s["declared"] | s["referenced"]) - exported
        if missing and not any(f[0] == b for f in fails):
            fails.append((b, "%s backend refers to symbols the library does not export: %s" % (b, sorted(missing)[:6])))
    return src, fails, labels, nt


def worker(widx, seed, params):
    art = build.ensure_repo_artifacts()
    work = build.workdir("c06-w%d" % widx)
    acc = pbt.Acc("C06", max_violations=6)

    def body(case):
        if acc.full():
            return
        bs, prog, placed = case
        src, fails, labels, nt = check_case(art, work, bs, prog)
        for l in labels:
            acc.case([ir.dumps(prog), l.split(":")[0]], nt and l.endswith(":ok"), [l], sample={"backends": bs, "stage": l, "lib_rs": src[:1500]})
        for x in set(placed):
            acc.labels["placed:" + x] += 1
        if nt:
            acc.labels["program-with-renamed-symbol"] += 1
        for kind, msg in fails:
            sig = "%s|%s" % (kind, msg.split(":")[0][:60])
            if any(v["signature"] == sig for v in acc.violations):
                continue

            def again(p2, kind=kind):
                _, f2, _, _ = check_case(art, work, bs if kind in ("nm", "rustc") else [kind], p2)
                return any(k2 == kind for k2, _ in f2)
            small, _ = red.reduce(prog, again, budget=50)
            ssrc, f2, _, _ = check_case(art, work, bs if kind in ("nm", "rustc") else [kind], small)
            m2 = next((m for k2, m in f2 if k2 == kind), msg)
            acc.violation("%s\n--- lib.rs ---\n%s" % (m2, ssrc), {"backends": bs, "program": small, "kind": kind}, signature=sig)

    pbt.explore(cases(), body, params["n"], seed)
    build.rm_workdir(work)
    return acc.result()


def run(ctx):
    n = 40 if ctx.quick else 800
    m = pbt.run_workers("checks.c06", "worker", 14, ctx.seed, {"n": n})
    cov = {"evaluations": m["evaluations"], "distinct_nontrivial": m["distinct_nontrivial"], "rule": RULE, "samples": m["samples"], "labels": m["labels"]}
    res = {"coverage": cov, "assumptions": ASSUME, "violations": m["violations"]}
    if m["labels"].get("rustc:fail", 0) > 0:
        res["health_failure"] = None
    return res


def replay(ctx):
    art = build.ensure_repo_artifacts()
    c = json.load(open(ctx.replay))["case"]
    work = build.workdir("c06-replay")
    src, fails, labels, _ = check_case(art, work, c["backends"], c["program"])
    build.rm_workdir(work)
    print(src)
    for k, m in fails:
        print(k, m)
    return {"violations": [{"replay": ctx.replay, "message": m} for k, m in fails]}
