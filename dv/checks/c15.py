"""C15 — after successful lowering no backend crashes (grammar-based generation, subprocess oracle)."""
import json, os, re
from hypothesis import strategies as st
from .. import build, pbt, tool, reduce as red, findings
from ..gen import ir, strategies as S

RULE = ("Hypothesis-generated bridge programs per backend profile (types x positions x optionality x lifetimes the gate admits), each run "
        "through `diplomat-tool <backend>` in a fresh process for every config variant; a case is one (program, backend, config). "
        "Violation = panic / abort / exit 101. Non-trivial: lowering succeeded (the backend itself ran) and the program has an optional "
        "non-pointer parameter, a by-value struct parameter and a Result return. Distinct = distinct (program, backend, config).")
ASSUME = [
    "backends are exercised through the diplomat-tool binary only; Dart/Kotlin/nanobind output is not compiled",
    "128-bit integers and traits are outside the generated grammar",
    "lib_name / kotlin.domain are always supplied (documented as required by kotlin and nanobind)",
]

CONFIGS = {
    "c": [[]], "cpp": [[]], "dart": [[]],
    "js": [["js.abi=legacy"], ["js.abi=spec"]],
    "demo_gen": [[]],
    "kotlin": [["lib_name=somelib", "kotlin.domain=dev.diplomattest"],
               ["lib_name=somelib", "kotlin.domain=dev.diplomattest", "kotlin.use_finalizers_not_cleaners=true"]],
    "nanobind": [["lib_name=somelib"]],
}


# Steering around the known findings (known_findings.json) so that exploration continues past them; each
# known finding keeps a dedicated probe (run_probes) that confirms it is still present.
STEER = {
    "kotlin": dict(opt_slices=False, cb_struct_methods_only=True, cb_rate=4),   # (+ no fallible indexers: see cases())
    "js": dict(err_custom_only=True),
    "demo_gen": dict(err_custom_only=True),
    "dart": dict(no_byte_slices=True),
    "nanobind": dict(),      # (static getter/setter pairs are kept off opaque types: see add_special_methods)
}


def run_probes(art):
    """returns (known_seen lines, violations) for the findings listed as known"""
    seen = []
    work = build.workdir("c15-probes")
    for f in findings.known_for("C15"):
        pr = f.get("probe")
        if not pr:
            continue
        d = os.path.join(work, "probe%d" % len(seen))
        os.makedirs(d, exist_ok=True)
        entry = os.path.join(d, "lib.rs")
        open(entry, "w").write(pr["lib_rs"])
        r = tool.run_backend(art, pr["backend"], entry, os.path.join(d, "out"), config=pr["config"], backtrace=True)
        if r.classify() == "panic" and panic_signature(pr["backend"], r.stderr) == f["signature"]:
            seen.append(f["what"])
    build.rm_workdir(work)
    return seen


def panic_signature(backend, stderr):
    m = re.search(r"panicked at ([^\s:]+):\d+:\d+:\s*\n(.*)", stderr)
    if not m:
        return "%s|abnormal-exit" % backend
    msg = m.group(2).strip()
    msg = re.sub(r'"[^"]*"', '"_"', msg)
    msg = re.sub(r"`[^`]*`", "`_`", msg)
    msg = re.sub(r"\b[A-Z][A-Za-z0-9]*\b(::\w+)?", "_", msg) if "must have the" in msg else msg
    msg = re.sub(r"\d+", "N", msg)
    b = "js" if backend == "demo_gen" and m.group(1).startswith("tool/src/js") else backend
    if m.group(1).startswith("core/"):
        b = "core"
    # the innermost function of the repository's own crates on the panicking stack (RUST_BACKTRACE=1): file and message alone
    # do not tell two `unwrap()`s or two `unreachable!`s of one file apart
    fn = "?"
    for fm in re.finditer(r"^\s*\d+:\s+(?:<)?(diplomat_(?:tool|core)::[^\n]*)$", stderr, re.M):
        fn = re.sub(r"<[^<>]*>", "", fm.group(1))
        fn = re.sub(r"<[^<>]*>", "", fn)
        fn = re.sub(r"::\{\{closure\}\}.*$", "", fn).replace(" as ", "-as-").strip("<> ")
        fn = fn.split(" ")[0]
        break
    return "%s|%s|%s|in %s" % (b, m.group(1), msg[:120], fn)


def nontrivial(prog):
    f = S.features(prog)
    has_opt = any(q[1][0] == "opt" and q[1][1][0] in ("prim", "enum", "struct") for _, _, _, m in ir.all_methods(prog) for q in m["params"])
    has_struct = "param:struct" in f
    return has_opt and has_struct and "ret:result" in f


def cases():
    @st.composite
    def c(draw):
        b = draw(st.sampled_from(tool.BACKENDS))
        over = dict(keywords=draw(st.integers(0, 3)) == 0, modules=draw(st.sampled_from([1, 1, 2, 3])), opt_slice_returns=True)
        if b in ("c", "cpp"):
            over["utf8strs"] = False
        over.update(STEER.get(b, {}))
        p = S.profile_for([b], **over)
        prog = draw(S.programs(p))
        if draw(st.integers(0, 2)) == 0:
            prog["_steer"] = {"no_static_props_on_opaque": b == "nanobind", "no_fallible_indexer": b == "kotlin", "no_self_ctor": False}
            prog["special"] = S.add_special_methods(draw, prog)     # getters/setters, constructors, stringifiers, comparators, indexers, iterators
        if draw(st.integers(0, 2)) == 0:
            S.add_rust_links(draw, prog)      # documentation links of every kind (rendered by all backends but c)
        if b in ("kotlin", "c") and draw(st.integers(0, 3)) == 0:
            S.add_trait(draw, prog, options=(b == "c"))      # bridged traits: kotlin and c are the backends that accept them
        return b, prog
    return c()


def kotlin_error_attrs(prog):
    """Kotlin declares custom_errors support: types used as the Err arm must carry the `error` attribute."""
    names = set()
    for _, _, _, m in ir.all_methods(prog):
        r = m["ret"]
        if r and r[0] == "result" and r[2][0] in ("struct", "enum", "box", "ref"):
            names.add(r[2][1] if r[2][0] != "ref" else r[2][3])
    for _, it in ir.all_items(prog):
        if it["name"] in names and not any("error" in a for a in it["attrs"]):
            it["attrs"].append("#[diplomat::attr(kotlin, error)]")


def run_case(art, work, backend, prog, tag):
    src = ir.render_program(prog)
    d = os.path.join(work, tag)
    os.makedirs(d, exist_ok=True)
    entry = os.path.join(d, "lib.rs")
    open(entry, "w").write(src)
    out = []
    for ci, cfg in enumerate(CONFIGS[backend]):
        r = tool.run_backend(art, backend, entry, os.path.join(d, "out%d" % ci), config=cfg, backtrace=True)
        out.append((cfg, r))
    return src, out


def worker(widx, seed, params):
    art = build.ensure_repo_artifacts()
    work = build.workdir("c15-w%d" % widx)
    acc = pbt.Acc("C15", max_violations=8)
    # findings whose input shape the generator cannot produce are confirmed by their probe only: a generated case with the same
    # (file, message) signature is then a different defect and is reported
    known = {f["signature"] for f in findings.known_for("C15") if not f.get("probe_only")}
    counter = [0]

    def body(case):
        if acc.full():
            return
        backend, prog = case
        if backend == "kotlin":
            kotlin_error_attrs(prog)
        counter[0] += 1
        src, runs = run_case(art, work, backend, prog, "p%d" % (counter[0] % 4))
        nt = nontrivial(prog)
        for cfg, r in runs:
            cls = r.classify()
            labels = ["%s:%s" % (backend, cls)]
            if counter[0] % 1 == 0:
                labels += list(S.features(prog)) if cfg == CONFIGS[backend][0] else []
            acc.case([ir.dumps(prog), backend, cfg], nt and cls in ("ok", "backend-error"), labels,
                     sample={"backend": backend, "config": cfg, "outcome": cls, "lib_rs": src[:1500]})
            if cls == "panic":
                sig = panic_signature(backend, r.stderr)
                if sig in known:
                    acc.extra["known:" + sig] += 1
                    continue
                if any(v["signature"] == sig for v in acc.violations):
                    acc.extra["duplicate-violations"] += 1
                    continue

                def fails(p2, cfg=cfg, sig=sig):
                    _, rr = run_case(art, work, backend, p2, "reduce")
                    return any(x.classify() == "panic" and panic_signature(backend, x.stderr) == sig for c2, x in rr if c2 == cfg)

                small, _ = red.reduce(prog, fails, budget=120)
                ssrc, rr = run_case(art, work, backend, small, "final")
                err = next((x.stderr for c2, x in rr if c2 == cfg), r.stderr)
                acc.violation("diplomat-tool %s %s crashed after lowering: %s\n--- lib.rs ---\n%s" % (backend, " ".join("--config " + c for c in cfg), err.strip()[-600:], ssrc),
                              {"backend": backend, "config": cfg, "program": small}, signature=sig)
            elif cls.startswith("other-exit"):
                acc.violation("diplomat-tool %s exited %s without diagnostics: %s" % (backend, r.rc, r.stderr[-500:]),
                              {"backend": backend, "config": cfg, "program": prog}, signature="%s|exit-%s" % (backend, r.rc))

    pbt.explore(cases(), body, params["n"], seed)
    build.rm_workdir(work)
    return acc.result()


def run(ctx):
    n = 450 if ctx.quick else 6000
    art = build.ensure_repo_artifacts()
    m = pbt.run_workers("checks.c15", "worker", 14, ctx.seed, {"n": n})
    known_seen = run_probes(art)
    labels = {k: v for k, v in m["labels"].items()}
    accepted = sum(v for k, v in labels.items() if k.endswith(":ok") or k.endswith(":backend-error"))
    redirected = {k: v for k, v in m["extra"].items() if k.startswith("known:")}
    cov = {"steered_around": {b: sorted(v) for b, v in STEER.items()}, "known_finding_shapes_met_despite_steering": redirected,
           "evaluations": m["evaluations"], "distinct_nontrivial": m["distinct_nontrivial"], "rule": RULE, "samples": m["samples"],
           "labels": labels, "runs_reaching_backend": accepted, "extra": m["extra"]}
    res = {"coverage": cov, "assumptions": ASSUME, "violations": m["violations"], "known_seen": known_seen}
    if accepted < 0.5 * max(1, m["evaluations"]):
        res["health_failure"] = "fewer than half of the generated programs passed lowering (%d/%d)" % (accepted, m["evaluations"])
    return res


def replay(ctx):
    art = build.ensure_repo_artifacts()
    case = json.load(open(ctx.replay))["case"]
    work = build.workdir("c15-replay")
    src, rr = run_case(art, work, case["backend"], case["program"], "r")
    v = []
    for cfg, r in rr:
        if cfg == case["config"]:
            print(r.stderr[-1500:])
            if r.classify() == "panic":
                v.append({"replay": ctx.replay, "message": r.stderr[-800:], "signature": panic_signature(case["backend"], r.stderr)})
    build.rm_workdir(work)
    return {"violations": v}
