"""C12 — DiplomatWrite is exact and never overruns (Engine R, model-based with injected grow outcomes)."""
from .. import rt

RULE = ("proptest-generated (writer kind, initial capacity, grow-outcome pattern, chunk/flush sequence); the real writer is "
        "observed through the documented repr(C) layout after every operation and compared with a Vec<u8>+sticky-flag model. "
        "Non-trivial: caller-supplied writer with a successful grow, then a failed grow, then a further non-empty write; "
        "fixed writer that overflows and is written to again; Rust-owned writer that grows at least once. Distinct = distinct serialized case.")

ASSUME = [
    "DiplomatWrite's private fields are read through the 7-field repr(C) mirror documented in capi.h (size mismatch = inconclusive)",
    "diplomat_buffer_write_get_bytes/len are also called on caller-supplied writers (they only read fields)",
    "a grow() request is expected exactly when len+chunk > cap and no earlier growth failed ('calling grow() as necessary')",
    "the end-to-end C/C++ string-return leg of this property is exercised by the C01/C02 drivers, not here",
]


def legs(ctx):
    if ctx.quick:
        return [
            dict(name="native", flavor="release", cases=30000, workers=8),
            dict(name="asan-exact", flavor="asan", cases=6000, workers=4, extra=["--exact", "1"]),
        ]
    return [
        dict(name="native", flavor="release", cases=400000, workers=12),
        dict(name="asan-exact", flavor="asan", cases=100000, workers=4, extra=["--exact", "1"]),
        dict(name="libfuzzer-c12_write", flavor="fuzz", target="c12_write", runs=3000000, workers=1),
        dict(name="miri", flavor="miri", cases=40, workers=1, extra=['--exact', '1']),
    ]


def run(ctx):
    m = rt.run_legs("C12", legs(ctx), ctx.seed)
    cov = {
        "evaluations": m["evaluations"], "distinct_nontrivial": m["distinct_nontrivial"], "rule": RULE,
        "samples": m["samples"], "labels": m["labels"], "legs": m["legs"],
    }
    return {"coverage": cov, "assumptions": ASSUME, "violations": m["violations"]}


def replay(ctx):
    return rt.replay("C12", ctx.replay)
