"""C12 — DiplomatWrite is exact and never overruns (Engine R, model-based with injected grow outcomes)."""
import json
from .. import rt, pbt
from . import c12_e2e

RULE = ("proptest-generated (writer kind, initial capacity, grow-outcome pattern, chunk/flush sequence); the real writer is "
        "observed through the documented repr(C) layout after every operation and compared with a Vec<u8>+sticky-flag model. "
        "End-to-end leg (Hypothesis): chunk lists (empty, ASCII, multi-byte, beyond the small-string size) written by a real bridge method and read back through the generated C API "
        "(Rust-owned growable writer of any initial capacity; fixed caller buffer of exactly n bytes under AddressSanitizer, n around the total and the chunk boundaries) and the generated C++ API "
        "(std::string-backed writer, plain and Result-returning): the text, its length, the sticky failure flag and the NUL position must be the model's. "
        "Non-trivial: caller-supplied writer with a successful grow, then a failed grow, then a further non-empty write; "
        "fixed writer that overflows and is written to again; Rust-owned writer that grows at least once. Distinct = distinct serialized case.")

ASSUME = [
    "DiplomatWrite's private fields are read through the 7-field repr(C) mirror documented in capi.h (size mismatch = inconclusive)",
    "diplomat_buffer_write_get_bytes/len are also called on caller-supplied writers (they only read fields)",
    "a grow() request is expected exactly when len+chunk > cap and no earlier growth failed ('calling grow() as necessary')",
    "end-to-end leg: the generated C and C++ headers of one fixed bridge are trusted to compile (C09's subject); a driver that does not build is reported as a violation of this property's last sentence only because nothing can then be returned at all",
]


def legs(ctx):
    if ctx.quick:
        return [
            dict(name="native", flavor="release", cases=30000, workers=8),
            dict(name="asan-exact", flavor="asan", cases=6000, workers=4, extra=["--exact", "1"]),
        ]
    return [
        dict(name="native", flavor="release", cases=400000, workers=12),
        dict(name="asan-exact", flavor="asan", cases=100000, workers=4, extra=["--exact", "1"]),
        dict(name="libfuzzer-c12_write", flavor="fuzz", target="c12_write", runs=3000000, workers=1),
        dict(name="miri", flavor="miri", cases=40, workers=1, extra=['--exact', '1']),
    ]


def run(ctx):
    m = rt.run_legs("C12", legs(ctx), ctx.seed)
    e = pbt.run_workers("checks.c12_e2e", "worker", 6, ctx.seed + 11, {"n": 120 if ctx.quick else 4000})
    m["evaluations"] += e["evaluations"]
    m["distinct_nontrivial"] += e["distinct_nontrivial"]
    m["labels"] = dict(m["labels"], **e["labels"])
    m["samples"] = list(m["samples"])[:3] + e["samples"][:1]
    m["violations"] = list(m["violations"]) + e["violations"]
    cov = {
        "evaluations": m["evaluations"], "distinct_nontrivial": m["distinct_nontrivial"], "rule": RULE,
        "samples": m["samples"], "labels": m["labels"], "legs": m["legs"],
    }
    return {"coverage": cov, "assumptions": ASSUME, "violations": m["violations"]}


def replay(ctx):
    c = json.load(open(ctx.replay)).get("case")
    if isinstance(c, dict) and c.get("kind") == "e2e":
        msg = c12_e2e.replay_case(c["case"])
        print(msg or "replay ok: the text came back exactly")
        return {"violations": [{"replay": ctx.replay, "message": msg}] if msg else []}
    if isinstance(c, dict) and c.get("kind") == "e2e-setup":
        msg = c12_e2e.replay_case({"chunks": ["a"], "mode": "s", "p1": 0, "fail": False})
        print(msg or "replay ok")
        return {"violations": [{"replay": ctx.replay, "message": msg}] if msg else []}
    return rt.replay("C12", ctx.replay)
