"""C03 — exactly-once destruction. Layer R (runtime types, Engine R); layer E (generated C/C++ API histories) is added by e2e."""
from .. import rt

RULE_R = ("layer R: proptest-generated op sequences (create Result/Option/Box<[T]>/NULL owned slice/Box<str>/callback, convert "
          "std<->Diplomat representation via each public API, clone, as_ref/deref, drop) over payloads whose Drop records an id; "
          "after every step no id is dropped twice and exactly the ids of dropped owners are dropped; at the end every id exactly once. "
          "Non-trivial: >=1 conversion of a value that owns a payload and >=1 drop of a converted value.")

ASSUME = [
    "NULL+0 owned slices and callbacks are built through their documented repr(C) layouts, as a foreign caller would",
    "heap payloads (double free / leak visible to ASan+LSan) are used in the asan leg only; natively the drop ledger decides",
]


def legs(ctx):
    if ctx.quick:
        return [
            dict(name="native-ledger", flavor="release", cases=30000, workers=8),
            dict(name="asan-heap", flavor="asan", cases=8000, workers=4, extra=["--heap", "1"]),
        ]
    return [
        dict(name="native-ledger", flavor="release", cases=500000, workers=12),
        dict(name="asan-heap", flavor="asan", cases=150000, workers=4, extra=["--heap", "1"]),
    ]


def run_layer_r(ctx):
    return rt.run_legs("C03", legs(ctx), ctx.seed)


def run(ctx):
    m = run_layer_r(ctx)
    cov = {
        "evaluations": m["evaluations"], "distinct_nontrivial": m["distinct_nontrivial"], "rule": RULE_R,
        "samples": m["samples"], "labels": m["labels"], "legs": m["legs"],
    }
    return {"coverage": cov, "assumptions": ASSUME, "violations": m["violations"]}


def replay(ctx):
    return rt.replay("C03", ctx.replay)
