"""C03 — exactly-once destruction. Layer R (runtime types, Engine R) and layer E (generated histories over the generated C API)."""
import json, os, re
from hypothesis import strategies as st
from .. import rt, build, pbt, e2e
from ..gen import ir, strategies as S

RULE_R = ("layer R: proptest-generated op sequences (create Result/Option/Box<[T]>/NULL owned slice/Box<str>/callback, convert "
          "std<->Diplomat representation via each public API, clone, as_ref/deref, drop) over payloads whose Drop records an id; "
          "after every step no id is dropped twice and exactly the ids of dropped owners are dropped; at the end every id exactly once. "
          "Non-trivial: >=1 conversion of a value that owns a payload and >=1 drop of a converted value.")

ASSUME = [
    "NULL+0 owned slices and callbacks are built through their documented repr(C) layouts, as a foreign caller would",
    "heap payloads (double free / leak visible to ASan+LSan) are used in the asan leg only; natively the drop ledger decides",
]


def legs(ctx):
    if ctx.quick:
        return [
            dict(name="native-ledger", flavor="release", cases=30000, workers=8),
            dict(name="asan-heap", flavor="asan", cases=8000, workers=4, extra=["--heap", "1"]),
        ]
    return [
        dict(name="native-ledger", flavor="release", cases=500000, workers=12),
        dict(name="asan-heap", flavor="asan", cases=150000, workers=4, extra=["--heap", "1"]),
        dict(name="libfuzzer-c03_ledger", flavor="fuzz", target="c03_ledger", runs=2500000, workers=1),
        dict(name="miri", flavor="miri", cases=40, workers=1, extra=['--heap', '1']),
    ]


def run_layer_r(ctx):
    return rt.run_legs("C03", legs(ctx), ctx.seed)


RULE_E = ("layer E: Hypothesis-generated programs (C profile, no borrowed returns) whose opaque types log their drop, and generated *histories* over the generated C API: "
          "each step calls a drawn method; opaque arguments are borrowed from a pool of live objects (or freshly created through a constructor), owned opaques returned "
          "directly / in Option / in Result arms / inside out-structs join the pool, owned slices and strings are allocated with diplomat_alloc and handed over, "
          "objects are destroyed at drawn points and all remaining ones at the end. Oracle: the Rust drop log equals the driver's destroy order exactly (each object once, "
          "at its destroy call, never during a borrow); gcc AddressSanitizer + LeakSanitizer + UBSan report nothing. A case = one history step. "
          "Non-trivial history: contains a destroy of an object that was borrowed earlier, a call borrowing a long-lived object, and an owned value returned to C.")
ASSUME += [
    "layer E generates only histories a correct caller may perform (no use after destroy, no aliasing of &mut); the C++ unique_ptr half of the property is exercised by C02's driver",
]


@st.composite
def histories(draw):
    p = S.profile_for(["c"], callbacks=True, cb_rate=5, keywords=False, modules=1, max_types=6, max_methods=4, max_params=3, lifetimes=False, utf8strs=False)
    prog = draw(S.programs(p))
    e2e.add_support_methods(prog)
    plan, history, stats = e2e.plan_history(draw, prog, draw(st.integers(8, 30)))
    if draw(st.booleans()):
        prog["holder"] = e2e.plan_holder(draw)       # a callback stored by an opaque: released exactly once, when its holder is destroyed
        stats["stored_callback"] = 1
    return prog, plan, history, stats


def evaluate_history(art, work, prog, plan, history):
    res = e2e.build_and_run(art, work, prog, plan, history=history, leaks=True)
    fails = []
    if res["status"] != "ran":
        if res["status"] in ("rustc-failed", "cc-failed"):
            fails.append((res["status"], "harness build failed: " + res["stderr"][-1200:]))
        return fails, res
    if res["rc"] != 0 or "ERROR: AddressSanitizer" in res["stderr"] or "ERROR: LeakSanitizer" in res["stderr"] or "runtime error:" in res["stderr"]:
        fails.append(("sanitizer", "memory error or leak reported (exit %s):\n%s" % (res["rc"], res["stderr"][-1800:])))
    lines = res["stdout"].split("\n")
    drops = [l for l in lines if l.startswith("drops ")]
    got = [int(x) for x in drops[0][len("drops "):].split(",") if x] if drops else []
    want = list(history["drop_order"])
    if got != want and not fails:
        dup = sorted({x for x in got if got.count(x) > 1})
        missing = [x for x in want if x not in got]
        extra = [x for x in got if x not in want]
        fails.append(("drops", "Rust dropped %s but the driver destroyed %s (dropped twice: %s, never dropped: %s, dropped without a destroy: %s)" % (got, want, dup, missing, extra)))
    exp_rets, exp_logs = e2e.expected_lines(prog, plan, history)
    rets = [l for l in lines if l.startswith("ret ")]
    logs = [l.rstrip() for l in lines if l.startswith("call ")]
    if not fails and (rets != exp_rets or logs != [l.rstrip() for l in exp_logs]):
        bad = next(((g, w) for g, w in zip(rets + logs, exp_rets + [l.rstrip() for l in exp_logs]) if g != w), ("<count>", "<count>"))
        fails.append(("values", "history observed `%s`, expected `%s`" % bad))
    if not fails:
        fails += e2e.callback_fails(prog, plan, lines, history=history)
    if not fails and prog.get("holder"):
        fails += e2e.holder_fails(prog["holder"], lines)
    return fails, res


def worker_e(widx, seed, params):
    art = build.ensure_repo_artifacts()
    work = build.workdir("c03-w%d" % widx)
    acc = pbt.Acc("C03", max_violations=4)

    def body(case):
        if acc.full():
            return
        prog, plan, history, stats = case
        fails, res = evaluate_history(art, work, prog, plan, history)
        if res["status"] != "ran" and not fails:
            acc.labels["not-accepted:" + res["status"]] += 1
            return
        nt = stats["destroy_after_borrow"] > 0 and stats["borrow_of_live"] > 0 and stats["owned_returned"] > 0
        for i, (pi, k) in enumerate(history["order"]):
            acc.case([ir.dumps(prog), json.dumps(history, sort_keys=True), i], nt, ["history-step"], sample={"history_steps": len(history["order"]), "stats": stats, "destroy_order": history["drop_order"][:12]})
        for kx, v in stats.items():
            acc.labels["history:" + kx] += 1 if v else 0
        for sig, msg in fails:
            if any(v["signature"] == sig for v in acc.violations):
                continue
            acc.violation("%s\n--- lib.rs (bridge part) ---\n%s" % (msg, ir.render_program(prog)[:3000]), {"program": prog, "plan": plan, "history": history, "layer": "E"}, signature=sig)

    pbt.explore(histories(), body, params["n"], seed)
    build.rm_workdir(work)
    return acc.result()


def run(ctx):
    m = run_layer_r(ctx)
    n = 10 if ctx.quick else 250
    me = pbt.run_workers("checks.c03", "worker_e", 14, ctx.seed + 11, {"n": n})
    labels = dict(m["labels"])
    labels.update(me["labels"])
    cov = {
        "evaluations": m["evaluations"] + me["evaluations"], "distinct_nontrivial": m["distinct_nontrivial"] + me["distinct_nontrivial"],
        "rule": RULE_R + " || " + RULE_E, "samples": m["samples"][:2] + me["samples"][:2], "labels": labels, "legs": m["legs"],
        "layer_e_history_steps": me["evaluations"],
    }
    return {"coverage": cov, "assumptions": ASSUME, "violations": m["violations"] + me["violations"]}


def replay(ctx):
    d = json.load(open(ctx.replay))
    c = d.get("case", {})
    if isinstance(c, dict) and c.get("layer") == "E":
        art = build.ensure_repo_artifacts()
        work = build.workdir("c03-replay")
        fails, res = evaluate_history(art, work, c["program"], c["plan"], c["history"])
        build.rm_workdir(work)
        for s_, m in fails:
            print(s_, m[:1500])
        return {"violations": [{"replay": ctx.replay, "message": m[:1200]} for s_, m in fails]}
    return rt.replay("C03", ctx.replay)
