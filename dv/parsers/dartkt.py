"""Parsers for the native declarations in generated Dart (dart:ffi) and Kotlin (JNA) code, resolved into the ABI algebra."""
import os, re

DART_SCALAR = {"Int8": "i8", "Uint8": "u8", "Int16": "i16", "Uint16": "u16", "Int32": "i32", "Uint32": "u32", "Int64": "i64", "Uint64": "u64",
               "Size": "usize", "IntPtr": "isize", "Float": "f32", "Double": "f64", "Bool": "bool", "Void": "void"}


class ParseError(Exception):
    pass


def split_top(s):
    out, depth, cur = [], 0, ""
    for ch in s:
        if ch in "<(":
            depth += 1
        elif ch in ">)":
            depth -= 1
        if ch == "," and depth == 0:
            out.append(cur.strip())
            cur = ""
        else:
            cur += ch
    if cur.strip():
        out.append(cur.strip())
    return out


class Dart:
    def __init__(self, outdir):
        self.classes = {}
        self.natives = {}
        for fn in sorted(os.listdir(outdir)):
            if not fn.endswith(".g.dart"):
                continue
            text = open(os.path.join(outdir, fn)).read()
            for m in re.finditer(r"final class (\w+) extends ffi\.(Struct|Union) \{(.*?)\n\}", text, re.S):
                name, kind, body = m.group(1), m.group(2), m.group(3)
                fields = []
                ann = None
                for line in body.split("\n"):
                    line = line.strip()
                    am = re.match(r"@ffi\.(\w+)\(\)$", line)
                    if am:
                        ann = am.group(1)
                        continue
                    fm = re.match(r"external (.+?) (\w+);$", line)
                    if fm:
                        fields.append((fm.group(2), ("ann", ann) if ann else ("type", fm.group(1))))
                        ann = None
                    elif line and not line.startswith("//") and not line.startswith("@"):
                        # constructors / helpers inside the class end the field list
                        if "(" in line or "factory" in line or "static" in line:
                            ann = None
                self.classes[name] = (kind, fields)
            for m in re.finditer(r"@ffi\.Native<(.+?) Function\((.*?)\)>\((?:isLeaf: true, )?symbol: '(\w+)'", text):
                self.natives[m.group(3)] = (m.group(1).strip(), split_top(m.group(2)))

    def resolve(self, t, depth=0):
        if depth > 12:
            raise ParseError("recursive class " + t)
        t = t.strip()
        m = re.match(r"ffi\.(\w+)$", t)
        if m:
            if m.group(1) not in DART_SCALAR:
                raise ParseError("unknown dart:ffi scalar " + t)
            return (DART_SCALAR[m.group(1)],)
        if t.startswith("ffi.Pointer<"):
            return ("ptr",)
        if t in self.classes:
            kind, fields = self.classes[t]
            fs = []
            for name, spec in fields:
                if spec[0] == "ann":
                    if spec[1] not in DART_SCALAR:
                        raise ParseError("unknown annotation @ffi.%s" % spec[1])
                    fs.append((DART_SCALAR[spec[1]],))
                else:
                    fs.append(self.resolve(spec[1], depth + 1))
            return ("rec" if kind == "Struct" else "union", fs)
        raise ParseError("unknown Dart native type %r" % t)

    def signature(self, sym):
        if sym not in self.natives:
            return None
        ret, params = self.natives[sym]
        return [self.resolve(p) for p in params], self.resolve(ret)

    def struct(self, name):
        cn = "_%sFfi" % name
        if cn not in self.classes:
            return None
        return self.resolve(cn)


# Kotlin / JNA --------------------------------------------------------------------------------------
KT_SCALAR = {"Byte": "i8", "Short": "i16", "Int": "i32", "Long": "i64", "Float": "f32", "Double": "f64", "Boolean": "bool",
             "FFIUint8": "u8", "FFIUint16": "u16", "FFIUint32": "u32", "FFIUint64": "u64", "FFISizet": "usize", "FFIIsizet": "isize",
             "Pointer": "ptr", "Pointer?": "ptr", "Unit": "void", "Callback": "ptr",
             # callback runner signatures use the Kotlin-facing unsigned types (same widths)
             "UByte": "u8", "UShort": "u16", "UInt": "u32", "ULong": "u64"}


class Kotlin:
    def __init__(self, outdir):
        self.classes = {}
        self.funs = {}
        self.field_orders = {}
        self.runners = {}
        for dp, _, fns in os.walk(outdir):
            for fn in sorted(fns):
                if not fn.endswith(".kt"):
                    continue
                text = open(os.path.join(dp, fn)).read()
                for m in re.finditer(r"internal interface (Runner_\w+)\s*:\s*Callback\s*\{\s*fun invoke\((.*?)\)\s*:\s*([\w?]+)", text, re.S):
                    self.runners[m.group(1)] = (m.group(3), [p.split(":", 1)[1].strip() for p in split_top(m.group(2)) if p.strip()])
                for m in re.finditer(r"(?:internal )?class (\w+)\s*:\s*(Structure\(\), Structure\.ByValue|Union\(\))\s*\{(.*?)\n\}", text, re.S):
                    name, kind, body = m.group(1), m.group(2), m.group(3)
                    fields = []
                    for fm in re.finditer(r"@JvmField\s*(?:internal )?var (\w+): ([\w?]+)", body):
                        fields.append((fm.group(1), fm.group(2)))
                    self.classes[name] = ("rec" if kind.startswith("Structure") else "union", fields)
                    om = re.search(r"getFieldOrder\(\): List<String> \{\s*return listOf\((.*?)\)", body, re.S)
                    if om:
                        self.field_orders[name] = re.findall(r'"(\w+)"', om.group(1))
                for blk in re.findall(r"internal interface \w+Lib\s*:\s*Library\s*\{(.*?)\n\}", text, re.S):
                    for fm in re.finditer(r"fun (\w+)\((.*?)\)(?::\s*([\w?]+))?\s*$", blk, re.M):
                        params = []
                        for p in split_top(fm.group(2)):
                            if p:
                                params.append(p.split(":", 1)[1].strip())
                        self.funs[fm.group(1)] = (fm.group(3) or "Unit", params)

    def resolve(self, t, depth=0, field=False):
        if depth > 12:
            raise ParseError("recursive class " + t)
        if t in KT_SCALAR:
            return (KT_SCALAR[t],)
        if t in self.runners:
            return ("ptr",)     # a JNA Callback field is a function pointer
        if t in self.classes:
            kind, fields = self.classes[t]
            if kind == "rec":
                order = self.field_orders.get(t)
                if order is None:
                    raise ParseError("Structure %s has no getFieldOrder()" % t)
                if order != [f[0] for f in fields]:
                    raise ParseError("getFieldOrder() of %s lists %s but the fields are declared as %s" % (t, order, [f[0] for f in fields]))
            return (kind, [self.resolve(ft, depth + 1, True) for _, ft in fields])
        raise ParseError("unknown Kotlin native type %r" % t)

    def signature(self, sym):
        if sym not in self.funs:
            return None
        ret, params = self.funs[sym]
        return [self.resolve(p) for p in params], self.resolve(ret)

    def struct(self, name):
        cn = name + "Native"
        if cn not in self.classes:
            return None
        return self.resolve(cn)

    def runner(self, name):
        """(params, ret) of a callback's `invoke`, or None"""
        if name not in self.runners:
            return None
        ret, params = self.runners[name]
        return [self.resolve(p) for p in params], self.resolve(ret)
