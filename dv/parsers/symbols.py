"""Extracts the native symbols each backend's generated code refers to."""
import os, re

RUNTIME_PREFIXES = ("diplomat_",)


def _files(outdir, pred):
    out = []
    for dp, _, fns in os.walk(outdir):
        for fn in fns:
            if pred(fn):
                out.append(os.path.join(dp, fn))
    return sorted(out)


def _strip(names):
    return {n for n in names if not n.startswith(RUNTIME_PREFIXES)}


PROTO = re.compile(r"^\s*(?!typedef\b)(?:[A-Za-z_][\w:]*[\s\*]+)+?\**\s*([A-Za-z_]\w*)\(([^;]*)\);\s*$")


def c_symbols(outdir):
    decl = set()
    for f in _files(outdir, lambda n: n.endswith(".h") and not n.endswith(".d.h") and n != "diplomat_runtime.h"):
        for line in open(f):
            if "(*" in line:
                continue
            m = PROTO.match(line)
            if m:
                decl.add(m.group(1))
    return {"declared": _strip(decl), "referenced": _strip(decl)}


def cpp_symbols(outdir):
    decl, calls = set(), set()
    for f in _files(outdir, lambda n: n.endswith(".hpp") and not n.endswith(".d.hpp") and n != "diplomat_runtime.hpp"):
        text = open(f).read()
        for blk in re.findall(r'extern "C" \{(.*?)\} // extern "C"', text, re.S):
            for line in blk.split("\n"):
                if "(*" in line:
                    continue
                m = PROTO.match(line)
                if m:
                    decl.add(m.group(1))
        body = re.sub(r'extern "C" \{.*?\} // extern "C"', "", text, flags=re.S)
        for m in re.finditer(r"\bcapi::([A-Za-z_]\w*)\(", body):
            calls.add(m.group(1))
    return {"declared": _strip(decl), "referenced": _strip(calls)}


def js_symbols(outdir):
    calls = set()
    for f in _files(outdir, lambda n: n.endswith(".mjs") and not n.startswith("diplomat-") and n != "index.mjs"):
        if os.sep + "demo_gen" in f and os.sep + "js" + os.sep not in f:
            continue
        for m in re.finditer(r"\bwasm\.([A-Za-z_]\w*)\(", open(f).read()):
            calls.add(m.group(1))
    return {"declared": _strip(calls), "referenced": _strip(calls)}


def dart_symbols(outdir):
    sym, use = set(), set()
    for f in _files(outdir, lambda n: n.endswith(".g.dart") and n != "lib.g.dart"):
        t = open(f).read()
        sym.update(re.findall(r"symbol:\s*'([A-Za-z_]\w*)'", t))
        use.update(re.findall(r"_DiplomatFfiUse\('([A-Za-z_]\w*)'\)", t))
        # finalizers are looked up by name
        sym.update(re.findall(r"Native\.addressOf\(\s*_?([A-Za-z_]\w*)\)", t) and [])
    return {"declared": _strip(sym), "referenced": _strip(sym | use), "ffi_use": _strip(use)}


def kotlin_symbols(outdir):
    decl, calls = set(), set()
    for f in _files(outdir, lambda n: n.endswith(".kt") and n != "Lib.kt"):
        t = open(f).read()
        for blk in re.findall(r"internal interface \w+Lib\s*:\s*Library\s*\{(.*?)\n\}", t, re.S):
            decl.update(re.findall(r"\bfun\s+([A-Za-z_]\w*)\(", blk))
        # call sites: `lib.<symbol>(` (the runtime's own library object is `DW.lib`)
        body = re.sub(r"internal interface \w+Lib\s*:\s*Library\s*\{.*?\n\}", "", t, flags=re.S)
        calls.update(m.group(1) for m in re.finditer(r"(?<![\w.])lib\.([A-Za-z_]\w*)\(", body))
    return {"declared": _strip(decl), "referenced": _strip(calls)}


def symbols(backend, outdir):
    if backend == "c":
        return c_symbols(outdir)
    if backend == "cpp":
        return cpp_symbols(outdir)
    if backend == "nanobind":
        return cpp_symbols(os.path.join(outdir, "include"))
    if backend == "js":
        return js_symbols(outdir)
    if backend == "demo_gen":
        return js_symbols(os.path.join(outdir, "js"))
    if backend == "dart":
        return dart_symbols(outdir)
    if backend == "kotlin":
        return kotlin_symbols(outdir)
    raise ValueError(backend)
