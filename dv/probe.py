"""Client for dv-probe (in-process lowering through the public diplomat_core API)."""
import json, os, subprocess
from . import build

ALL_FLAGS = ["namespacing", "memory_sharing", "non_exhaustive_structs", "method_overloading", "utf8_strings", "utf16_strings",
             "static_slices", "constructors", "named_constructors", "fallible_constructors", "accessors", "static_accessors",
             "stringifiers", "comparators", "iterators", "iterables", "indexing", "arithmetic", "option", "callbacks", "traits",
             "custom_errors", "traits_are_send", "traits_are_sync"]


class Probe:
    def __init__(self):
        self.bin = os.path.join(build.ensure_rs("dv-probe", "release"), "dv-probe")
        self.p = None
        self.n = 0

    def _start(self):
        self.p = subprocess.Popen([self.bin], stdin=subprocess.PIPE, stdout=subprocess.PIPE, stderr=subprocess.DEVNULL, text=True, bufsize=1)

    def ask(self, src, support=None, backend="dvprobe", borrow=False, unsafe_refs=False, other_names=(), list_types=False):
        if self.p is None or self.p.poll() is not None:
            self._start()
        self.n += 1
        req = {"id": self.n, "src": src, "support": support or {}, "backend": backend, "borrow": borrow, "unsafe_refs": unsafe_refs,
               "other_names": list(other_names), "list": list_types}
        try:
            self.p.stdin.write(json.dumps(req) + "\n")
            self.p.stdin.flush()
            line = self.p.stdout.readline()
        except BrokenPipeError:
            line = ""
        if not line:
            # the probe died (abort / stack overflow inside the library): report as a crash of the code under test
            rc = self.p.poll()
            self.p = None
            return {"status": "crash", "panic": "dv-probe process died (exit %s)" % rc}
        return json.loads(line)

    def close(self):
        if self.p and self.p.poll() is None:
            self.p.stdin.close()
            self.p.wait(timeout=10)
