import json, os, time

VERIF = os.path.dirname(os.path.dirname(os.path.abspath(__file__)))


def write(pid, tier, seed, coverage, assumptions, wall_s, violations, level="exploration"):
    cov = dict(coverage)
    cov.setdefault("samples", [])
    ev = {
        "property_id": pid,
        "tier": tier,
        "seed": int(seed),
        "level": level,
        "coverage": cov,
        "assumptions": list(assumptions),
        "wall_s": round(float(wall_s), 2),
        "violations": int(violations),
    }
    # a run against a scratch copy of the repository (DV_REPO: seeded regressions, mutants) must not replace the evidence of /repo
    edir = os.path.join(VERIF, "evidence")
    if os.environ.get("DV_REPO", "/repo") != "/repo":
        edir = os.path.join(VERIF, ".build", "evidence-scratch")
    os.makedirs(edir, exist_ok=True)
    p = os.path.join(edir, pid + ".json")
    tmp = p + ".tmp"
    with open(tmp, "w") as f:
        json.dump(ev, f, indent=1, sort_keys=True, default=str)
        f.write("\n")
    os.replace(tmp, p)
    return p
