"""Bridge-program IR (JSON-serialisable dicts/lists) and its rendering to Rust source.

Types are lists:
  ["prim", p] ["enum", N] ["struct", N, lts] ["ref", lt, mut, N, lts] ["box", N, lts]
  ["opt", inner, "std"|"dip"] ["slice", lt|"owned", mut, prim, "std"|"dip"] ["str", lt|"owned", enc, "std"|"dip"]
  ["strs", enc, "std"|"dip"] ["result", ok, err, "std"|"dip"] ["unit"] ["write"] ["cb", [ins], out, mut] ["ordering"]
Lifetimes: None (elided) | "static" | name without the tick.
"""
import copy, json

PRIMS = ["i8", "u8", "i16", "u16", "i32", "u32", "i64", "u64", "isize", "usize", "f32", "f64", "bool",
         "DiplomatChar", "DiplomatByte"]
PRIM_BITS = {"i8": 8, "u8": 8, "i16": 16, "u16": 16, "i32": 32, "u32": 32, "i64": 64, "u64": 64, "isize": 64,
             "usize": 64, "f32": 32, "f64": 64, "bool": 8, "DiplomatChar": 32, "DiplomatByte": 8}
ENCS = ["utf8", "str8", "str16"]


def lt_s(lt):
    return "" if lt is None else "'" + lt


def generics(lts):
    lts = [l for l in lts if l is not None]
    return "<" + ", ".join("'" + l for l in lts) + ">" if lts else ""


def rs_type(t):
    k = t[0]
    selfsp = isinstance(t[-1], str) and t[-1] == "Self" and k in ("enum", "struct", "ref", "box")   # spelled `Self` in the source
    if k == "prim":
        return t[1]
    if k == "enum":
        return "Self" if selfsp else t[1]
    if k == "struct":
        return "Self" if selfsp else t[1] + generics(t[2])
    if k == "ref":
        lt, mut, n, lts = t[1], t[2], t[3], t[4]
        return "&" + (lt_s(lt) + " " if lt else "") + ("mut " if mut else "") + ("Self" if selfsp else n + generics(lts))
    if k == "box":
        return "Box<" + ("Self" if selfsp else t[1] + generics(t[2])) + ">"
    if k == "opt":
        return ("Option<" if t[2] == "std" else "DiplomatOption<") + rs_type(t[1]) + ">"
    if k == "slice":
        _, lt, mut, p, sp = t
        if sp == "std":
            if lt == "owned":
                return "Box<[%s]>" % p
            return "&" + (lt_s(lt) + " " if lt else "") + ("mut " if mut else "") + "[%s]" % p
        if lt == "owned":
            return "DiplomatOwnedSlice<%s>" % p
        name = "DiplomatSliceMut" if mut else "DiplomatSlice"
        return "%s<%s%s>" % (name, (lt_s(lt) + ", ") if lt else "", p)
    if k == "str":
        _, lt, enc, sp = t
        if sp == "std":
            inner = {"utf8": "str", "str8": "DiplomatStr", "str16": "DiplomatStr16"}[enc]
            if lt == "owned":
                return "Box<%s>" % inner
            return "&" + (lt_s(lt) + " " if lt else "") + inner
        if lt == "owned":
            return {"utf8": "DiplomatOwnedUTF8StrSlice", "str8": "DiplomatOwnedStrSlice", "str16": "DiplomatOwnedStr16Slice"}[enc]
        name = {"utf8": "DiplomatUtf8StrSlice", "str8": "DiplomatStrSlice", "str16": "DiplomatStr16Slice"}[enc]
        return name + (("<" + lt_s(lt) + ">") if lt else "")
    if k == "strs":
        _, enc, sp = t
        name = {"utf8": "DiplomatUtf8StrSlice", "str8": "DiplomatStrSlice", "str16": "DiplomatStr16Slice"}[enc]
        return "&[%s]" % name if sp == "std" else "DiplomatSlice<%s>" % name
    if k == "result":
        return ("Result<" if t[3] == "std" else "DiplomatResult<") + rs_type(t[1]) + ", " + rs_type(t[2]) + ">"
    if k == "unit":
        return "()"
    if k == "write":
        return "&mut DiplomatWrite"
    if k == "cb":
        _, ins, out, mut = t
        s = "impl %s(%s)" % ("FnMut" if mut else "Fn", ", ".join(rs_type(i) for i in ins))
        if out[0] != "unit":
            s += " -> " + rs_type(out)
        return s
    if k == "ordering":
        return "core::cmp::Ordering"
    if k == "raw":
        return t[1]         # verbatim Rust type text (fault injection, `impl Trait` parameters)
    raise ValueError(t)


def unself(t):
    """copy of a type with `Self` spellings replaced by the named type"""
    if not isinstance(t, list):
        return t
    out = [unself(x) if isinstance(x, list) and x and isinstance(x[0], str) and x[0] in ("prim", "enum", "struct", "ref", "box", "opt", "slice", "str", "strs", "result", "unit", "write", "cb", "ordering") else x for x in t]
    if isinstance(out[-1], str) and out[-1] == "Self" and out[0] in ("enum", "struct", "ref", "box"):
        out = out[:-1]
    return out


def type_lifetimes(t):
    """named lifetimes mentioned by a type"""
    k = t[0]
    out = []
    if k == "struct":
        out += [l for l in t[2] if l]
    elif k == "ref":
        out += [l for l in [t[1]] + t[4] if l]
    elif k == "box":
        out += [l for l in t[2] if l]
    elif k == "opt":
        out += type_lifetimes(t[1])
    elif k in ("slice", "str"):
        if t[1] not in (None, "owned"):
            out.append(t[1])
    elif k == "result":
        out += type_lifetimes(t[1]) + type_lifetimes(t[2])
    elif k == "cb":
        for i in t[1]:
            out += type_lifetimes(i)
        out += type_lifetimes(t[2])
    return [l for l in out if l != "static"]


def walk(t):
    yield t
    k = t[0]
    if k == "opt":
        yield from walk(t[1])
    elif k == "result":
        yield from walk(t[1])
        yield from walk(t[2])
    elif k == "cb":
        for i in t[1]:
            yield from walk(i)
        yield from walk(t[2])


def named_types(t):
    """names of custom types referenced"""
    out = []
    for s in walk(t):
        if s[0] in ("enum", "struct", "box"):
            out.append(s[1])
        elif s[0] == "ref":
            out.append(s[3])
    return out


# ------------------------------------------------------------------------------------------------
# Program structure
#   program = {"modules": [module], "extra_top": [str], "config_attrs": [str]}
#   module  = {"name", "attrs": [str], "items": [item], "uses": [str]}
#   item    = {"kind": "opaque"|"struct"|"enum", "name", "attrs": [str], "lifetimes": [[name, [bounds]]],
#              "out": bool, "fields": [[name, type, attrs]], "variants": [[name, disc|None, attrs]], "impls": [impl]}
#   impl    = {"attrs": [str], "methods": [method]}
#   method  = {"name", "attrs", "lifetimes": [[name,[bounds]]], "self": None|["ref", lt, mut]|["val"],
#              "params": [[name, type, attrs]], "ret": type|None, "body": str|None}

def lifetime_decl(lts):
    if not lts:
        return ""
    parts = []
    for name, bounds in lts:
        s = "'" + name
        if bounds:
            s += ": " + " + ".join("'" + b for b in bounds)
        parts.append(s)
    return "<" + ", ".join(parts) + ">"


def render_method(m, self_ty, indent="        ", bodies=None):
    ps = []
    if m["self"] is not None:
        if m["self"][0] == "ref":
            _, lt, mut = m["self"]
            ps.append("&" + (lt_s(lt) + " " if lt else "") + ("mut " if mut else "") + "self")
        else:
            ps.append("self")
    for p in m["params"]:
        name, ty = p[0], p[1]
        attrs = p[2] if len(p) > 2 else []
        ps.append("".join(a + " " for a in attrs) + "%s: %s" % (name, rs_type(ty)))
    ret = ""
    if m["ret"] is not None and m["ret"][0] != "unit":
        ret = " -> " + rs_type(m["ret"])
    body = None
    if bodies is not None:
        body = bodies(m, self_ty)
    if body is None:
        body = m.get("body") or "todo!()"
    out = ""
    for a in m.get("attrs", []):
        out += indent + a + "\n"
    out += indent + "pub fn %s%s(%s)%s {\n" % (m["name"], lifetime_decl(m["lifetimes"]), ", ".join(ps), ret)
    for line in body.split("\n"):
        out += indent + "    " + line + "\n"
    out += indent + "}\n"
    return out


def render_item(it, bodies=None, opaque_body=None):
    out = ""
    ind = "    "
    for a in it.get("attrs", []):
        out += ind + a + "\n"
    lt = lifetime_decl(it.get("lifetimes", []))
    if it["kind"] == "opaque":
        out += ind + "#[diplomat::opaque]\n"
        inner = opaque_body(it) if opaque_body else None
        if inner is None:
            lts = it.get("lifetimes", [])
            if lts:
                inner = "(" + ", ".join("core::marker::PhantomData<&'%s ()>" % l[0] for l in lts) + ")"
            else:
                inner = "(u32)" if it.get("tuple", True) else ""
        out += ind + "pub struct %s%s%s;\n" % (it["name"], lt, inner)
    elif it["kind"] == "struct":
        if it.get("out"):
            out += ind + "#[diplomat::out]\n"
        if not it["fields"]:
            out += ind + "pub struct %s%s;\n" % (it["name"], lt)
        else:
            out += ind + "pub struct %s%s {\n" % (it["name"], lt)
            for f in it["fields"]:
                for a in (f[2] if len(f) > 2 else []):
                    out += ind + "    " + a + "\n"
                out += ind + "    pub %s: %s,\n" % (f[0], rs_type(f[1]))
            out += ind + "}\n"
    elif it["kind"] == "enum":
        out += ind + "pub enum %s {\n" % it["name"]
        for v in it["variants"]:
            for a in (v[2] if len(v) > 2 else []):
                out += ind + "    " + a + "\n"
            out += ind + "    %s%s,\n" % (v[0], "" if v[1] is None else " = %d" % v[1])
        out += ind + "}\n"
    return out


def render_impl(it, impl, bodies=None):
    out = ""
    ind = "    "
    for a in impl.get("attrs", []):
        out += ind + a + "\n"
    lts = it.get("lifetimes", [])
    decl = lifetime_decl(lts)
    use = generics([l[0] for l in lts])
    out += ind + "impl%s %s%s {\n" % (decl, it["name"], use)
    for m in impl["methods"]:
        out += render_method(m, it, bodies=bodies)
    out += ind + "}\n"
    return out


def render_module(mod, bodies=None, opaque_body=None, extra_items=None):
    # #[diplomat::bridge] must come first: it is the macro that strips the other diplomat attributes
    out = "#[diplomat::bridge]\n"
    for a in mod.get("attrs", []):
        out += a + "\n"
    out += "pub mod %s {\n" % mod["name"]
    for u in mod.get("uses", []):
        out += "    #[allow(unused_imports)]\n    use %s;\n" % u
    for entry in mod["order"]:
        kind, idx = entry[0], entry[1]
        it = mod["items"][idx]
        if kind == "decl":
            out += render_item(it, bodies, opaque_body)
        elif kind == "impl":
            out += render_impl(it, it["impls"][entry[2]], bodies)
        out += "\n"
    for r in mod.get("raw_items", []):
        out += "    " + r + "\n"
    if extra_items:
        out += extra_items(mod)
    # bridge modules nested in this one (each is expanded by its own macro invocation)
    for child in mod.get("_children", []):
        if "order" not in child:
            default_order(child)
        out += "".join("    " + l + "\n" for l in render_module(child, bodies, opaque_body, extra_items).split("\n") if l)
    out += "}\n"
    return out


def default_order(mod):
    order = []
    for i, it in enumerate(mod["items"]):
        order.append(["decl", i])
        for j, _ in enumerate(it.get("impls", [])):
            order.append(["impl", i, j])
    mod["order"] = order


def render_program(prog, bodies=None, opaque_body=None, extra_items=None, prelude=""):
    out = "#![allow(warnings)]\n" if prog.get("allow_warnings", True) else ""
    out += prelude
    for a in prog.get("config_attrs", []):
        out += a + "\n"
    if prog.get("config_attrs"):
        out += "struct DvConfigCarrier;\n\n"
    tops = prog.get("top_order")
    pieces = []
    for mod in prog["modules"]:
        mod.pop("_children", None)
    for mod in prog["modules"]:
        if mod.get("nested_in") is not None:
            prog["modules"][mod["nested_in"]].setdefault("_children", []).append(mod)
    for mod in prog["modules"]:
        if "order" not in mod:
            default_order(mod)
        if mod.get("nested_in") is not None:
            pieces.append("")
            continue
        pieces.append(render_module(mod, bodies, opaque_body, extra_items))
    for mod in prog["modules"]:
        mod.pop("_children", None)
    extras = list(prog.get("extra_top", []))
    if tops is None:
        out += "\n".join(pieces) + "\n" + "\n".join(extras) + "\n"
    else:
        for kind, i in tops:
            out += (pieces[i] if kind == "mod" else extras[i]) + "\n"
    return out


def all_items(prog):
    for mod in prog["modules"]:
        for it in mod["items"]:
            yield mod, it


def all_methods(prog):
    for mod, it in all_items(prog):
        for impl in it.get("impls", []):
            for m in impl["methods"]:
                yield mod, it, impl, m


def find_item(prog, name):
    for mod, it in all_items(prog):
        if it["name"] == name:
            return it
    return None


def clone(prog):
    return copy.deepcopy(prog)


def dumps(prog):
    return json.dumps(prog, sort_keys=True)
