"""Hypothesis strategies that build bridge programs valid by construction for a feature profile."""
from hypothesis import strategies as st
from . import ir

# Names -------------------------------------------------------------------------------------------
TYPE_NAMES = ["Alpha", "Beta", "Gamma", "Delta", "Epsilon", "Zeta", "Eta", "Theta", "Iota", "Kappa", "Lambda", "Mu",
              "Nu", "Xi", "Omicron", "Rho", "Sigma", "Tau", "Upsilon", "Phi", "Chi", "Psi", "Omega", "Widget", "Gadget",
              "Locale2", "Bcp47", "Utf8Thing", "ABCName", "Node", "Tree", "Graph", "Point3D", "Vec2", "Vec3", "Matrix",
              "Buffer2", "Cursor", "Token", "Parser2", "Lexer", "Frame", "Packet", "Header2", "Entry", "Span2"]
PLAIN_IDENTS = ["a", "b", "c", "x", "y", "z", "value", "count", "index", "flag", "data", "name", "first", "second",
                "left", "right", "width", "height", "input", "other", "opt", "item", "total", "kind", "level", "mode"]
# legal Rust identifiers that are keywords / reserved / builtins in at least one target language
KEYWORD_IDENTS = ["default", "new", "register", "int", "union", "namespace", "delete", "this", "class", "operator",
                  "template", "typename", "char", "short", "long", "signed", "unsigned", "auto", "volatile", "inline",
                  "restrict", "typedef", "switch", "case", "goto", "void", "float", "double", "var", "function",
                  "with", "export", "import", "package", "object", "fun", "val", "when", "is", "and", "or", "not", "def",
                  "lambda", "pass", "from", "global", "del", "interface", "throw", "try_", "catch", "finally",
                  "instanceof", "null", "undefined", "arguments", "eval", "yield_", "friend", "private",
                  "public", "protected", "explicit", "mutable", "asm", "bool_", "wchar_t", "nullptr",
                  "alignas", "decltype", "constexpr", "noexcept", "static_assert", "thread_local", "NULL", "errno",
                  "assert", "string", "list", "dict", "len", "print", "str_", "it", "internal", "open", "data", "companion",
                  "external", "dynamic", "covariant", "late", "required", "get", "set", "factory", "library", "part", "show",
                  "hide", "sync", "async_", "await_", "of", "on", "Function", "extension", "mixin", "abstract_", "typeid",
                  "xor", "bitand", "bitor", "compl", "not_eq", "and_eq", "or_eq", "xor_eq", "main", "std", "diplomat",
                  "capi", "ptr", "wasm", "result", "ok", "err", "size", "length", "toString", "hashCode", "equals", "ffi_"]
VARIANT_NAMES = ["One", "Two", "Three", "Four", "Five", "Six", "Seven", "Eight", "Red", "Green", "Blue", "North", "South",
                 "Min", "Max", "Default", "None_", "Null", "True_", "Nan", "Unknown", "First", "Last"]
METHOD_NAMES = ["get", "set", "make", "create", "build", "compute", "apply", "run", "check", "update", "fetch", "store",
                "convert", "parse", "format_", "len", "is_empty", "first", "last", "next_one", "with_value", "from_parts",
                "to_other", "combine", "split", "reset", "touch", "probe", "measure", "render", "describe", "lookup"]

PROFILES = {
    # what the generator may use so that the named backend(s) accept the program
    "c": dict(option=True, callbacks=True, static_slices=True, strs=True, owned_slices=True, utf8strs=False),
    # cb_*: callback shapes. The cpp runtime's fn_traits converts only AsFFI-able and (8-bit) string_view arguments and no
    # return value (C09 known finding cpp|callback-shape-not-converted): the generator steers around the other shapes there.
    "cpp": dict(option=True, callbacks=True, static_slices=True, strs=True, owned_slices=True, utf8strs=False,
                cb_opt=False, cb_slices=False, cb_str16=False, cb_box=False, cb_ret_custom=False),
    "js": dict(option=True, callbacks=False, static_slices=False, strs=False, owned_slices=True, utf8strs=False),
    "dart": dict(option=True, callbacks=False, static_slices=False, strs=False, owned_slices=True, utf8strs=False),
    "kotlin": dict(option=False, callbacks=True, static_slices=True, strs=False, owned_slices=True, utf8strs=False, cb_strs=False, cb_str16=False),
    "nanobind": dict(option=True, callbacks=True, static_slices=True, strs=False, owned_slices=True, utf8strs=False),
    "demo_gen": dict(option=True, callbacks=False, static_slices=False, strs=False, owned_slices=True, utf8strs=False),
}


def profile_for(backends, **over):
    p = dict(option=True, callbacks=True, static_slices=True, strs=True, owned_slices=True, utf8strs=True,
             cb_opt=True, cb_slices=True, cb_strs=True, cb_str16=True, cb_box=True, cb_ret_custom=True)
    for b in backends:
        for k, v in PROFILES[b].items():
            p[k] = p[k] and v
    p.update(dict(keywords=False, out_structs=True, lifetimes=True, write=True, results=True, dip_spelling=True,
                  by_value_self=True, struct_slices=True, mut_slices=True, str16=True, opt_slices=True,
                  max_types=8, max_methods=4, modules=1, floats=True, struct_borrows=True, nested_structs=True,
                  opt_fields=True, enum_methods=True, struct_methods=True, neg_discriminants=True,
                  zst=False, ordering=False, cb_rich=True))
    p.update(over)
    return p


def slice_prims(p):
    xs = list(ir.PRIMS)
    if not p.get("floats", True):
        xs = [x for x in xs if x not in ("f32", "f64")]
    if p.get("no_byte_slices"):
        xs = [x for x in xs if x != "DiplomatByte"]
    return st.sampled_from(xs)


def prims(p):
    xs = list(ir.PRIMS)
    if not p.get("floats", True):
        xs = [x for x in xs if x not in ("f32", "f64")]
    return st.sampled_from(xs)


# Identifier shapes behind the C09 known findings (known_findings.json); the generator steers around them and
# dedicated probes keep confirming them.
JS_RESERVED_PARAMS = {"Function", "arguments", "await_", "case", "catch", "class", "default", "delete", "eval", "export", "finally",
                      "function", "import", "instanceof", "interface", "new", "null", "package", "private", "protected", "public",
                      "switch", "this", "throw", "try_", "var", "void", "with", "yield_"}
MACRO_NAMES = {"NULL", "errno"}
PARAM_COLLISIONS = {"result", "this", "write", "output"}


def idents(p, position="other"):
    if p.get("keywords"):
        kws = [k for k in KEYWORD_IDENTS if k not in MACRO_NAMES]
        if position == "param":
            kws = [k for k in kws if k not in PARAM_COLLISIONS and (k not in JS_RESERVED_PARAMS or not p.get("steer_js_params", False))]
        return st.one_of(st.sampled_from(PLAIN_IDENTS), st.sampled_from(kws), st.sampled_from(kws))
    return st.sampled_from(PLAIN_IDENTS)


@st.composite
def unique_idents(draw, p, n, avoid=(), position="other"):
    # names are kept distinct up to case and underscores: backends re-case identifiers (`Function` and `function` are both
    # `function` in JS), and a collision produced that way is outside the property's domain
    def fold(x):
        return x.replace("_", "").lower()
    out = []
    seen = {fold(a) for a in avoid}
    pool = idents(p, position)
    for i in range(n):
        x = draw(pool)
        k = 0
        base = x
        while fold(x) in seen:
            k += 1
            x = "%s%d" % (base, k)
        seen.add(fold(x))
        out.append(x)
    return out


@st.composite
def enum_defs(draw, p, name):
    n = draw(st.integers(1, 8))
    names = draw(st.permutations(VARIANT_NAMES))[:n]
    variants = []
    used = set()
    last = -1
    lo = -(2 ** 31) if p.get("neg_discriminants", True) else 0
    mode = draw(st.sampled_from(["implicit", "mixed", "explicit", "mixed"]))
    hi = 2 ** 31 - 1

    def free_near(val):
        """nearest value inside i32 that is not taken yet"""
        base = min(max(val, lo), hi)
        if base not in used:
            return base
        for step in range(1, 4096):
            for c in (base + step, base - step):
                if lo <= c <= hi and c not in used:
                    return c
        raise AssertionError("no free discriminant")

    for v in names:
        explicit = mode == "explicit" or (mode == "mixed" and draw(st.booleans()))
        if explicit:
            d = draw(st.one_of(st.integers(-6, 12), st.integers(lo, hi), st.sampled_from([lo, hi, -1, 0, 1, 255, 256])))
            val = free_near(d)
            disc = val
        else:
            val = last + 1
            if val in used or val > hi or val < lo:
                # the implicit successor would collide or overflow i32 (rustc rejects that): make it explicit
                val = free_near(val)
                disc = val
            else:
                disc = None
        used.add(val)
        last = val
        variants.append([v, disc, []])
    return {"kind": "enum", "name": name, "attrs": [], "variants": variants, "values": sorted(used), "impls": []}


def enum_values(it):
    """numeric value of each variant per Rust's rule (explicit or previous+1)"""
    out = []
    last = -1
    for v in it["variants"]:
        val = v[1] if v[1] is not None else last + 1
        out.append((v[0], val))
        last = val
    return out


class Universe:
    """types declared so far, with what each may be used for"""

    def __init__(self, p):
        self.p = p
        self.enums, self.opaques, self.structs, self.out_structs = [], [], [], []
        self.items = []

    def struct_lts(self, it):
        return [l[0] for l in it.get("lifetimes", [])]


@st.composite
def field_types(draw, u, out, lt):
    """a struct-field type; `lt` is the struct's lifetime name if it may borrow, else None"""
    p = u.p
    opts = ["prim", "prim", "prim"]
    if u.enums:
        opts += ["enum"]
    if u.structs and p.get("nested_structs", True):
        opts += ["struct"]
    if p.get("opt_fields", True) and p["option"]:
        opts += ["optprim"]
        if u.enums:
            opts += ["optenum"]
        if u.structs and p.get("nested_structs", True):
            opts += ["optstruct"]
    if lt and u.opaques and p.get("struct_borrows", True):
        opts += ["ref", "optref"]
    if lt and p.get("struct_slices", True):
        opts += ["slice", "str"]
    if out and u.opaques:
        opts += ["box", "optbox"]
    if out and u.out_structs and p.get("nested_structs", True):
        opts += ["ostruct"]
    k = draw(st.sampled_from(opts))
    if k == "prim":
        return ["prim", draw(prims(p))]
    if k == "enum":
        return ["enum", draw(st.sampled_from(u.enums))["name"]]
    if k in ("struct", "optstruct", "ostruct"):
        pool = u.out_structs if k == "ostruct" else u.structs
        cand = [s for s in pool if (lt or not s.get("lifetimes")) and s["fields"]]
        if not cand:
            return ["prim", draw(prims(p))]
        s = draw(st.sampled_from(cand))
        t = ["struct", s["name"], [lt for _ in s.get("lifetimes", [])]]
        return ["opt", t, "dip"] if k == "optstruct" else t
    if k == "optprim":
        return ["opt", ["prim", draw(prims(p))], "dip"]
    if k == "optenum":
        return ["opt", ["enum", draw(st.sampled_from(u.enums))["name"]], "dip"]
    if k in ("ref", "optref"):
        o = draw(st.sampled_from(u.opaques))
        t = ["ref", lt, False if not out else draw(st.booleans()) and False, o["name"], [lt for _ in o.get("lifetimes", [])]]
        return ["opt", t, "std"] if k == "optref" else t
    if k in ("box", "optbox"):
        o = draw(st.sampled_from(u.opaques))
        t = ["box", o["name"], [lt for _ in o.get("lifetimes", [])]] if (lt or not o.get("lifetimes")) else None
        if t is None:
            return ["prim", draw(prims(p))]
        return ["opt", t, "std"] if k == "optbox" else t
    if k == "slice":
        return ["slice", lt, False, draw(slice_prims(p)), "dip"]
    if k == "str":
        encs = ["utf8", "str8"] + (["str16"] if p.get("str16", True) else [])
        return ["str", lt, draw(st.sampled_from(encs)), "dip"]
    raise AssertionError(k)


@st.composite
def struct_defs(draw, u, name, out):
    p = u.p
    borrows = p.get("lifetimes", True) and draw(st.integers(0, 3)) == 0
    lt = "a" if borrows else None
    n = draw(st.integers(1, 6))
    fnames = draw(unique_idents(p, n))
    fields = []
    for fn in fnames:
        fields.append([fn, draw(field_types(u, out, lt)), []])
    used = any(ir.type_lifetimes(f[1]) for f in fields)
    lifetimes = [["a", []]] if used else []
    if not used:
        # strip lifetimes that were offered but not used
        pass
    return {"kind": "struct", "name": name, "attrs": [], "out": out, "lifetimes": lifetimes, "fields": fields, "impls": []}


@st.composite
def input_types(draw, u, lt_pool, in_callback=False):
    """a parameter type. lt_pool: lifetimes a borrowed input may carry (None = elided always allowed)"""
    p = u.p
    opts = ["prim", "prim"]
    if u.enums:
        opts.append("enum")
    if u.structs:
        opts += ["struct", "struct"]
    if u.opaques and not in_callback:
        opts += ["ref", "ref", "optref"]
    if p["option"] and not in_callback:
        opts += ["optprim"] + (["optenum"] if u.enums else []) + (["optstruct"] if u.structs else [])
    if not in_callback:
        opts += ["slice", "str"]
        if p.get("opt_slices", True):
            opts += ["optslice"]
        if p.get("owned_slices", True):
            opts += ["ownedslice"]
        if p.get("strs"):
            opts += ["strs"]
    k = draw(st.sampled_from(opts))
    sp = draw(st.sampled_from(["std", "std", "dip"])) if p.get("dip_spelling", True) else "std"
    lt = draw(st.sampled_from(lt_pool)) if lt_pool else None
    if k == "prim":
        return ["prim", draw(prims(p))]
    if k == "enum":
        return ["enum", draw(st.sampled_from(u.enums))["name"]]
    if k in ("struct", "optstruct"):
        cand = [s for s in u.structs if s["fields"] and not (in_callback and s.get("lifetimes"))]
        if not cand:
            return ["prim", draw(prims(p))]
        s = draw(st.sampled_from(cand))
        t = ["struct", s["name"], [lt for _ in s.get("lifetimes", [])]]
        return ["opt", t, sp] if k == "optstruct" else t
    if k == "optprim":
        return ["opt", ["prim", draw(prims(p))], sp]
    if k == "optenum":
        return ["opt", ["enum", draw(st.sampled_from(u.enums))["name"]], sp]
    if k in ("ref", "optref"):
        o = draw(st.sampled_from(u.opaques))
        mut = draw(st.integers(0, 3)) == 0
        t = ["ref", lt, mut, o["name"], [lt for _ in o.get("lifetimes", [])]]
        return ["opt", t, "std"] if k == "optref" else t
    if k in ("slice", "optslice", "ownedslice"):
        if draw(st.booleans()):
            prim = draw(slice_prims(p))
            if k == "ownedslice":
                return ["slice", "owned", False, prim, sp]
            mut = p.get("mut_slices", True) and k == "slice" and draw(st.integers(0, 2)) == 0
            t = ["slice", lt, mut, prim, sp]
        else:
            encs = ["utf8", "str8"] + (["str16"] if p.get("str16", True) else [])
            enc = draw(st.sampled_from(encs))
            if k == "ownedslice":
                return ["str", "owned", enc, sp]
            t = ["str", lt, enc, sp]
        return ["opt", t, "std"] if k == "optslice" else t
    if k == "str":
        encs = ["utf8", "str8"] + (["str16"] if p.get("str16", True) else [])
        return ["str", lt, draw(st.sampled_from(encs)), sp]
    if k == "strs":
        encs = ["str8", "str16"] + (["utf8"] if p.get("utf8strs") else [])
        return ["strs", draw(st.sampled_from(encs)), sp]
    raise AssertionError(k)


@st.composite
def output_types(draw, u, lt, inner=False):
    """a (non-Result) return type. lt: lifetime name usable for borrows, or None if nothing may borrow"""
    p = u.p
    opts = ["prim", "prim"]
    if u.enums:
        opts.append("enum")
    if u.structs or u.out_structs:
        opts += ["struct", "struct"]
    if u.opaques:
        opts += ["box", "box"]
        if lt:
            opts += ["ref"]
    if lt:
        opts += ["slice", "str"]
    if not inner:
        if u.opaques:
            opts += ["optbox"] + (["optref"] if lt else [])
        if p["option"]:
            opts += ["optprim"] + (["optenum"] if u.enums else []) + (["optstruct"] if u.structs or u.out_structs else [])
        if lt and p.get("opt_slice_returns", False):
            opts += ["optslice", "optstr"]      # Option<&'a [T]> / Option<&'a str> (build-level checks only)
    k = draw(st.sampled_from(opts))
    sp = draw(st.sampled_from(["std", "std", "dip"])) if p.get("dip_spelling", True) else "std"
    if k == "optslice":
        return ["opt", ["slice", lt, False, draw(slice_prims(p)), "std"], "std"]
    if k == "optstr":
        encs = ["utf8", "str8"] + (["str16"] if p.get("str16", True) else [])
        return ["opt", ["str", lt, draw(st.sampled_from(encs)), "std"], "std"]
    if k == "prim":
        return ["prim", draw(prims(p))]
    if k == "enum":
        return ["enum", draw(st.sampled_from(u.enums))["name"]]
    if k in ("struct", "optstruct"):
        cand = [s for s in u.structs + u.out_structs if s["fields"] and (lt or not s.get("lifetimes"))]
        if not cand:
            return ["prim", draw(prims(p))]
        s = draw(st.sampled_from(cand))
        t = ["struct", s["name"], [lt for _ in s.get("lifetimes", [])]]
        return ["opt", t, sp] if k == "optstruct" else t
    if k == "optprim":
        return ["opt", ["prim", draw(prims(p))], sp]
    if k == "optenum":
        return ["opt", ["enum", draw(st.sampled_from(u.enums))["name"]], sp]
    if k in ("box", "optbox"):
        cand = [o for o in u.opaques if lt or not o.get("lifetimes")]
        if not cand:
            return ["prim", draw(prims(p))]
        o = draw(st.sampled_from(cand))
        t = ["box", o["name"], [lt for _ in o.get("lifetimes", [])]]
        return ["opt", t, "std"] if k == "optbox" else t
    if k in ("ref", "optref"):
        o = draw(st.sampled_from(u.opaques))
        mut = p.get("mut_ref_returns", True) and draw(st.integers(0, 3)) == 0       # `&'a mut Opaque` / `Option<&'a mut Opaque>`
        t = ["ref", lt, mut, o["name"], [lt for _ in o.get("lifetimes", [])]]
        return ["opt", t, "std"] if k == "optref" else t
    if k == "slice":
        return ["slice", lt, False, draw(slice_prims(p)), sp]
    if k == "str":
        encs = ["utf8", "str8"] + (["str16"] if p.get("str16", True) else [])
        return ["str", lt, draw(st.sampled_from(encs)), sp]
    raise AssertionError(k)


@st.composite
def callback_types(draw, u):
    p = u.p
    n = draw(st.integers(0, 3))
    if not p.get("cb_rich"):
        ins = [draw(input_types(u, [], in_callback=True)) for _ in range(n)]
        out = draw(st.one_of(st.just(["unit"]), prims(p).map(lambda x: ["prim", x])))
        return ["cb", ins, out, draw(st.booleans())]
    # the wider grammar lowering accepts: arguments are lowered as output types (Rust hands them to the foreign function),
    # the answer as an input type
    plain_structs = [s for s in u.structs if s["fields"] and not s.get("lifetimes")]

    def one(direction):
        custom = direction == "arg" or p.get("cb_ret_custom", True)
        opts = ["prim", "prim"]
        if custom:
            opts += (["enum"] if u.enums else []) + (["struct"] if plain_structs else [])
        if p["option"] and p.get("cb_opt", True) and custom:
            opts += ["optprim"] + (["optenum"] if u.enums else []) + (["optstruct"] if plain_structs else [])
        if direction == "arg":
            if p.get("cb_slices", True):
                opts += ["slice"]
            if p.get("cb_strs", True):
                opts += ["str"]
            if p.get("cb_box", True) and u.opaques:
                opts += ["box"]
        k = draw(st.sampled_from(opts))
        sp = draw(st.sampled_from(["std", "std", "dip"])) if p.get("dip_spelling", True) else "std"
        if k in ("prim", "optprim"):
            t = ["prim", draw(prims(p))]
        elif k in ("enum", "optenum"):
            t = ["enum", draw(st.sampled_from(u.enums))["name"]]
        elif k in ("struct", "optstruct"):
            t = ["struct", draw(st.sampled_from(plain_structs))["name"], []]
        elif k == "slice":
            return ["slice", None, False, draw(slice_prims(p)), sp]
        elif k == "str":
            encs = ["utf8", "str8"] + (["str16"] if p.get("str16", True) and p.get("cb_str16", True) else [])
            return ["str", None, draw(st.sampled_from(encs)), sp]
        elif k == "box":
            cand = [o for o in u.opaques if not o.get("lifetimes")]
            if not cand:
                return ["prim", draw(prims(p))]
            return ["box", draw(st.sampled_from(cand))["name"], []]
        return ["opt", t, sp] if k.startswith("opt") else t
    ins = [one("arg") for _ in range(n)]
    out = ["unit"] if draw(st.integers(0, 3)) == 0 else one("ret")
    return ["cb", ins, out, draw(st.booleans())]


@st.composite
def methods(draw, u, it, name):
    p = u.p
    kind = it["kind"]
    tl = [l[0] for l in it.get("lifetimes", [])]
    # does the return borrow?
    borrow_ret = p.get("lifetimes", True) and draw(st.integers(0, 2)) == 0
    mlt = None
    if borrow_ret:
        mlt = tl[0] if tl and draw(st.booleans()) else "b"
    # self
    if kind == "opaque":
        sk = draw(st.sampled_from(["ref", "ref", "ref", "mut", "static"]))
    elif kind == "enum":
        sk = draw(st.sampled_from(["val", "static"])) if p.get("by_value_self", True) else "static"
    else:
        can_val = p.get("by_value_self", True) and not it.get("out") and it["fields"]
        sk = draw(st.sampled_from(["val", "static"])) if can_val else "static"
    slf = None
    lt_pool = [None, None]
    if mlt:
        lt_pool += [mlt, mlt]
    if sk in ("ref", "mut"):
        slt = draw(st.sampled_from(lt_pool))
        slf = ["ref", slt, sk == "mut"]
    elif sk == "val":
        slf = ["val"]
    n = draw(st.integers(0, p.get("max_params", 4)))
    pnames = draw(unique_idents(p, n + 1, avoid=["self", "this"], position="param"))
    params = []
    for i in range(n):
        if p["callbacks"] and (kind == "struct" or not p.get("cb_struct_methods_only")) and draw(st.integers(0, p.get("cb_rate", 10) - 1)) == 0:
            ty = draw(callback_types(u))
        else:
            ty = draw(input_types(u, lt_pool))
        params.append([pnames[i], ty, []])
    # return
    rk = draw(st.sampled_from(["none", "plain", "plain", "plain", "result", "write", "resultwrite"] + (["optunit", "optunitwrite"] if p.get("opt_unit", True) else [])))
    if not p.get("results", True) and rk in ("result", "resultwrite"):
        rk = "plain"
    if not p.get("write", True) and rk in ("write", "resultwrite", "optunitwrite"):
        rk = "none"
    ret = None
    if rk == "plain":
        ret = draw(output_types(u, mlt))
    elif rk in ("result", "resultwrite"):
        sp = draw(st.sampled_from(["std", "std", "dip"])) if p.get("dip_spelling", True) else "std"
        if rk == "resultwrite":
            ok = ["unit"]
        else:
            ok = draw(st.one_of(st.just(["unit"]), output_types(u, mlt, inner=True), output_types(u, mlt, inner=True)))
        err = draw(st.one_of(st.just(["unit"]), output_types(u, mlt, inner=True)))
        # a DiplomatOption<non-pointer> inside a Result arm
        if p["option"] and p.get("result_opt", True) and p.get("dip_spelling", True) and rk == "result" and draw(st.integers(0, 5)) == 0:
            inner_t = draw(st.one_of(prims(p).map(lambda x: ["prim", x]), st.sampled_from(u.enums).map(lambda e: ["enum", e["name"]]) if u.enums else prims(p).map(lambda x: ["prim", x])))
            o_ = ["opt", inner_t, "dip"]       # (the std spelling is rejected there: the macro converts a top-level Option only)
            if draw(st.booleans()):
                ok = o_
            else:
                err = o_
        if p.get("err_custom_only") and err[0] not in ("unit", "enum", "struct", "box", "ref"):
            err = ["unit"]
        ret = ["result", ok, err, sp]
    if rk in ("optunit", "optunitwrite"):
        ret = ["opt", ["unit"], "std"]      # Option<()>: "did it work" without a payload (with a write: an optional string)
    if rk in ("write", "resultwrite", "optunitwrite"):
        params.append([pnames[n] if pnames[n] != "write" else "w", ["write"], []])
    # spell some occurrences of the surrounding type as `Self`
    if p.get("self_spelling", True):
        def mark(t):
            k = t[0]
            if k in ("opt",):
                mark(t[1])
            elif k == "result":
                mark(t[1])
                mark(t[2])
            elif k == "enum" and t[1] == it["name"] and len(t) == 2 and draw(st.integers(0, 2)) == 0:
                t.append("Self")
            elif k in ("struct", "box") and t[1] == it["name"] and len(t) == 3 and t[2] == tl and draw(st.integers(0, 2)) == 0:
                t.append("Self")
            elif k == "ref" and t[3] == it["name"] and len(t) == 5 and t[4] == tl and draw(st.integers(0, 2)) == 0:
                t.append("Self")
        for q in params:
            mark(q[1])
        if ret:
            mark(ret)
    # lifetimes declared on the method: every named lifetime used that is not the type's
    used = set()
    if slf and slf[0] == "ref" and slf[1]:
        used.add(slf[1])
    for q in params:
        used.update(ir.type_lifetimes(q[1]))
    if ret:
        used.update(ir.type_lifetimes(ret))
    decl = [[l, []] for l in sorted(used) if l not in tl and l != "static"]
    return {"name": name, "attrs": [], "lifetimes": decl, "self": slf, "params": params, "ret": ret}


@st.composite
def programs(draw, p):
    u = Universe(p)
    ntypes = draw(st.integers(2, p.get("max_types", 8)))
    names = draw(st.permutations(TYPE_NAMES))[:ntypes + 2]
    # always at least one opaque and one enum so every type pool is non-empty
    kinds = ["opaque", "enum"] + [draw(st.sampled_from(["opaque", "struct", "struct", "enum", "outstruct" if p.get("out_structs", True) else "struct"])) for _ in range(ntypes - 2)]
    kinds = draw(st.permutations(kinds))
    items = []
    for k, nm in zip(kinds, names):
        if k == "opaque":
            has_lt = p.get("lifetimes", True) and draw(st.integers(0, 4)) == 0
            it = {"kind": "opaque", "name": nm, "attrs": [], "lifetimes": [["a", []]] if has_lt else [], "impls": []}
            u.opaques.append(it)
        elif k == "enum":
            it = draw(enum_defs(p, nm))
            u.enums.append(it)
        elif k == "struct":
            it = draw(struct_defs(u, nm, False))
            u.structs.append(it)
        else:
            it = draw(struct_defs(u, nm, True))
            u.out_structs.append(it)
        items.append(it)
    # methods (after all types exist so that signatures can reference later types: cyclic references)
    for it in items:
        if it["kind"] == "enum" and not p.get("enum_methods", True):
            continue
        if it["kind"] == "struct" and not p.get("struct_methods", True):
            continue
        nm = draw(st.integers(0 if it["kind"] != "opaque" else 1, p.get("max_methods", 4)))
        mnames = draw(st.permutations(METHOD_NAMES))[:nm]
        if p.get("keywords"):
            kw = draw(unique_idents(p, nm))
            mnames = [k if draw(st.booleans()) else m for k, m in zip(kw, mnames)]
            mnames = list(dict.fromkeys(mnames))
        if it["kind"] == "enum" and p.get("steer_field_method_clash", True):
            mnames = [m for m in mnames if m not in ("value", "Value")]
        if it["kind"] == "struct" and p.get("steer_field_method_clash", True):
            fnames = {f[0] for f in it["fields"]}
            mnames = [m for m in mnames if m not in fnames]
        ms = [draw(methods(u, it, m)) for m in mnames]
        if ms:
            nimpl = 2 if len(ms) >= 2 and draw(st.integers(0, 3)) == 0 else 1
            if nimpl == 1:
                it["impls"] = [{"attrs": [], "methods": ms}]
            else:
                cut = draw(st.integers(1, len(ms) - 1))
                it["impls"] = [{"attrs": [], "methods": ms[:cut]}, {"attrs": [], "methods": ms[cut:]}]
    nmods = draw(st.integers(1, p.get("modules", 1)))
    mods = []
    if nmods == 1:
        mods = [{"name": "ffi", "attrs": [], "uses": [], "items": items}]
    else:
        assign = [draw(st.integers(0, nmods - 1)) for _ in items]
        for mi in range(nmods):
            mods.append({"name": "ffi" if mi == 0 else "ffi%d" % (mi + 1), "attrs": [], "uses": [], "items": []})
        where = {}
        for it, a in zip(items, assign):
            mods[a]["items"].append(it)
            where[it["name"]] = a
        for mi, mod in enumerate(mods):
            needed = set()
            for it in mod["items"]:
                for f in it.get("fields", []):
                    needed.update(ir.named_types(f[1]))
                for impl in it.get("impls", []):
                    for m in impl["methods"]:
                        for q in m["params"]:
                            needed.update(ir.named_types(q[1]))
                        if m["ret"]:
                            needed.update(ir.named_types(m["ret"]))
            for n in sorted(needed):
                if where[n] != mi:
                    mod["uses"].append("crate::%s::%s" % (mods[where[n]]["name"], n))
        mods = [m for m in mods if m["items"]]
    prog = {"modules": mods, "extra_top": [], "config_attrs": []}
    for m in mods:
        ir.default_order(m)
    return prog


def features(prog):
    """labels describing what a program contains (for distribution measurement)"""
    f = set()
    for mod, it in ir.all_items(prog):
        f.add("kind:" + ("outstruct" if it.get("out") else it["kind"]))
        if it.get("lifetimes"):
            f.add("type-with-lifetime")
        for fl in it.get("fields", []):
            for s in ir.walk(fl[1]):
                f.add("field:" + s[0])
    for mod, it, impl, m in ir.all_methods(prog):
        if m["self"]:
            f.add("self:" + m["self"][0])
        for q in m["params"]:
            for s in ir.walk(q[1]):
                f.add("param:" + s[0])
                if s[0] in ("slice", "str") and s[1] == "owned":
                    f.add("param:owned-slice")
                if s[0] == "opt" and s[2] == "dip":
                    f.add("param:DiplomatOption")
        if m["ret"]:
            for s in ir.walk(m["ret"]):
                f.add("ret:" + s[0])
            if m["ret"][0] == "result":
                if m["ret"][1][0] == "unit":
                    f.add("ret:result-unit-ok")
                if m["ret"][2][0] == "unit":
                    f.add("ret:result-unit-err")
                if m["ret"][1][0] != "unit" and m["ret"][2][0] != "unit":
                    f.add("ret:result-two-payloads")
            if ir.type_lifetimes(m["ret"]):
                f.add("ret:borrows")
    if len(prog["modules"]) > 1:
        f.add("multi-module")
    return f


# Attribute decoration ------------------------------------------------------------------------------
ABI_PATTERNS = ["pre_{0}", "{0}_suf", "ns_{0}_v1", "book_{}", "{0}"]      # "book_{}": the spelling of the book's example
CFG_ATOMS = ["*", "c", "cpp", "js", "dart", "kotlin", "nanobind", "demo_gen", "not(c)", "not(js)", "any(cpp, js)",
             "any(dart, kotlin, nanobind)", "all(not(c), not(kotlin))", "not(any(js, dart))", "supports = option",
             "not(supports = callbacks)", "supports = namespacing"]


@st.composite
def decorate(draw, prog, abi=True, rename=True, disable=True, density=4, namespace=False):
    """randomly place abi_rename / rename / disable attributes; returns the list of placements (for labels)"""
    placed = []
    counter = [0]

    def maybe():
        return draw(st.integers(0, density)) == 0

    def fresh(prefix):
        counter[0] += 1
        return "%s%d" % (prefix, counter[0])

    for mod in prog["modules"]:
        if abi and maybe():
            mod["attrs"].append('#[diplomat::abi_rename = "%s"]' % draw(st.sampled_from(ABI_PATTERNS[:4])))
            placed.append("abi:module")
        for it in mod["items"]:
            if abi and it["kind"] == "opaque" and maybe():
                pat = draw(st.sampled_from(ABI_PATTERNS[:4] + ["dtorfixed_%s" % it["name"]]))
                it["attrs"].append('#[diplomat::abi_rename = "%s"]' % pat)
                placed.append("abi:type" + ("-nopattern" if "{0}" not in pat else ""))
            if rename and maybe():
                it["attrs"].append('#[diplomat::attr(%s, rename = "%s")]' % (draw(st.sampled_from(CFG_ATOMS)), fresh("Renamed" + it["name"])))
                placed.append("rename:type")
            if namespace and maybe():
                it["attrs"].append('#[diplomat::attr(auto, namespace = "%s")]' % draw(st.sampled_from(["ns1", "ns2", "ns1::inner", "outer::mid::deep"])))
                placed.append("namespace:type")
            for impl in it.get("impls", []):
                if abi and maybe():
                    # (a pattern without placeholder on an impl block is a plain replacement for its single method)
                    ipat = draw(st.sampled_from(ABI_PATTERNS[:4] + ([fresh("fixed_impl_sym_")] * 2 if len(impl["methods"]) == 1 else [])))
                    impl["attrs"].append('#[diplomat::abi_rename = "%s"]' % ipat)
                    placed.append("abi:impl" + ("-nopattern" if "{" not in ipat else ""))
                if disable and maybe() and maybe():
                    impl["attrs"].append("#[diplomat::attr(%s, disable)]" % draw(st.sampled_from(CFG_ATOMS)))
                    placed.append("disable:impl")
                for m in impl["methods"]:
                    if abi and maybe():
                        pat = draw(st.sampled_from(ABI_PATTERNS[:4] + [fresh("fixed_sym_")]))
                        m["attrs"].append('#[diplomat::abi_rename = "%s"]' % pat)
                        placed.append("abi:method" + ("-nopattern" if "{0}" not in pat else ""))
                    if rename and maybe() and not any("iterator)" in a for a in m["attrs"]):
                        # (the C++ runtime's iterator adapter calls `next()`: an iterator method of another name is a recorded C09 finding)
                        m["attrs"].append('#[diplomat::attr(%s, rename = "%s")]' % (draw(st.sampled_from(CFG_ATOMS)), fresh("renamed_" + m["name"])))
                        placed.append("rename:method")
                    if disable and maybe() and not any("disable" in a for a in impl["attrs"]):
                        # (a method-level disable under a disabled impl is reported as "Duplicate `disable`")
                        m["attrs"].append("#[diplomat::attr(%s, disable)]" % draw(st.sampled_from(CFG_ATOMS)))
                        placed.append("disable:method")
    return placed


def add_trait(draw, prog, name="DvTrait", disable_for=None, options=False):
    """kotlin only (the one backend with trait support): a bridged trait whose methods take primitives / enums / structs, and a struct
    method taking `impl DvTrait`"""
    mod = prog["modules"][0]
    hosts = [it for it in mod["items"] if it["kind"] == "struct" and not it.get("out") and it["fields"] and not it.get("lifetimes")]
    if not hosts:
        return
    enums = [it for it in mod["items"] if it["kind"] == "enum"]

    def ty():
        k = draw(st.sampled_from(["prim", "prim", "enum", "struct"]))
        if k == "enum" and enums:
            return ["enum", draw(st.sampled_from(enums))["name"]]
        if k == "struct":
            return ["struct", draw(st.sampled_from(hosts))["name"], []]
        return ["prim", draw(st.sampled_from(["u8", "i16", "i32", "u32", "i64", "f32", "f64", "bool"]))]

    def pty():
        t = ty()
        if options and t[0] in ("prim", "enum") and draw(st.integers(0, 2)) == 0:
            return ["opt", t, draw(st.sampled_from(["std", "std", "dip"]))]
        return t
    methods = []
    for i in range(draw(st.integers(1, 2))):
        params = [["a%d" % j, pty()] for j in range(draw(st.integers(0, 3)))]
        ret = draw(st.sampled_from([None, ["prim", "i32"], ["prim", "u8"], ["prim", "f64"]] + ([["opt", ["prim", "u8"], "std"], ["opt", ["prim", "i64"], "std"]] if options else [])))
        methods.append({"name": "go%d" % i, "params": params, "ret": ret})
    if disable_for and draw(st.integers(0, 2)) == 0:
        # one method switched off for a backend: its vtable slot stays (the layout is the proc macro's)
        draw(st.sampled_from(methods))["disabled_for"] = [disable_for]
    prog.setdefault("traits", []).append({"name": name, "methods": methods})
    text = "pub trait %s { " % name + " ".join("%sfn %s(&self%s)%s;" % (
        "".join("#[diplomat::attr(%s, disable)] " % b_ for b_ in m.get("disabled_for", [])),
        m["name"], "".join(", %s: %s" % (n, ir.rs_type(t)) for n, t in m["params"]), (" -> " + ir.rs_type(m["ret"])) if m["ret"] else "") for m in methods) + " }"
    mod.setdefault("raw_items", []).append(text)
    host = draw(st.sampled_from(hosts))
    host["impls"].append({"attrs": [], "methods": [{"name": "dv_use_%s" % name.lower(), "attrs": [], "lifetimes": [], "self": ["val"], "params": [["t", ["raw", "impl " + name], []]], "ret": ["prim", "u8"]}]})
    ir.default_order(mod)


DOC_KINDS = ["Struct", "StructField", "Enum", "EnumVariant", "EnumVariantField", "Trait", "FnInStruct", "FnInTypedef", "FnInEnum", "FnInTrait",
             "DefaultFnInTrait", "Fn", "Mod", "Constant", "AssociatedConstantInEnum", "AssociatedConstantInTrait", "AssociatedConstantInStruct",
             "Macro", "AssociatedTypeInEnum", "AssociatedTypeInTrait", "AssociatedTypeInStruct", "Typedef"]


def add_rust_links(draw, prog, rate=4):
    """`#[diplomat::rust_link(path, Kind)]` documentation links of every kind on types and methods (paths long enough for the kind:
    crate, module, item and, for member kinds, member and field)"""
    n = 0
    for mod in prog["modules"]:
        for it in mod["items"]:
            targets = [it] + [m for impl in it.get("impls", []) for m in impl["methods"]]
            for t in targets:
                if draw(st.integers(0, rate - 1)) != 0:
                    continue
                kind = draw(st.sampled_from(DOC_KINDS))
                path = "dvcrate::dvmod::DvItem::dv_member::dv_field" if draw(st.booleans()) else {"Mod": "dvcrate::dvmod"}.get(
                    kind, "dvcrate::dvmod::DvItem" + ("::dv_member" if "In" in kind or kind in ("StructField", "EnumVariant", "EnumVariantField") else "") + ("::dv_field" if kind == "EnumVariantField" else ""))
                extra = draw(st.sampled_from(["", "", ", hidden", ", compact"]))
                t["attrs"] = list(t["attrs"]) + ["#[diplomat::rust_link(%s, %s%s)]" % (path, kind, extra)]
                n += 1
    return n


def add_special_methods(draw, prog, rate=3):
    """the documented special-method attributes (`auto`: wherever the backend supports them): getter/setter pairs (instance or
    static, in either declaration order), constructor / named_constructor, stringifier, comparison, indexer, iterator/iterable.
    Methods are added, existing ones are not relabelled. Returns the list of placed kinds (for labels)."""
    placed = []
    n = [0]
    steer = prog.get("_steer", {})

    def m(name, self_, params, ret, attr):
        return {"name": name, "attrs": ["#[diplomat::attr(auto, %s)]" % attr], "lifetimes": [], "self": self_, "params": params, "ret": ret}

    for mod in prog["modules"]:
        for it in mod["items"]:
            if it.get("out") or it.get("lifetimes") or (it["kind"] == "struct" and not it["fields"]) or draw(st.integers(0, rate - 1)) != 0:
                continue
            n[0] += 1
            k = n[0]
            ms = []
            kind = it["kind"]
            ref_self = ["ref", None, False] if kind == "opaque" else ["val"]
            mut_self = ["ref", None, True] if kind == "opaque" else None
            what = draw(st.sampled_from(["prop", "prop", "static-prop", "ctor", "stringifier", "comparison", "indexer", "iterator", "iterable"]))
            if what == "static-prop" and kind == "opaque" and prog.get("_steer", {}).get("no_static_props_on_opaque"):
                what = "prop"       # nanobind known finding (C15): steered, probed separately
            pt = ["prim", draw(st.sampled_from(["u8", "i32", "f64", "bool", "u64"]))]
            if what == "prop":
                g = m("dv_get_p%d" % k, ref_self, [], pt, 'getter = "dv_p%d"' % k)
                pair = [g]
                if mut_self is not None or kind == "enum":
                    pair.append(m("dv_set_p%d" % k, mut_self or ["val"], [["v", pt, []]], None, 'setter = "dv_p%d"' % k))
                ms = list(draw(st.permutations(pair)))
            elif what == "static-prop":
                pair = [m("dv_sget_p%d" % k, None, [], pt, 'getter = "dv_sp%d"' % k), m("dv_sset_p%d" % k, None, [["v", pt, []]], None, 'setter = "dv_sp%d"' % k)]
                ms = list(draw(st.permutations(pair)))[:draw(st.integers(1, 2))]
            elif what == "ctor":
                ret = ["box", it["name"], []] if kind == "opaque" else ([kind, it["name"], []] if kind == "struct" else ["enum", it["name"]])
                cparams = [["v", pt, []]]
                if kind == "opaque" and not steer.get("no_self_ctor") and draw(st.integers(0, 3)) == 0:
                    # a constructor that takes its own type (a parent / a value to copy)
                    own = ["ref", None, False, it["name"], []]
                    cparams.append(["parent", draw(st.sampled_from([own, ["opt", own, "std"]])), []])
                ms = [m("dv_ctor%d" % k, None, cparams, ret, draw(st.sampled_from(["constructor", 'named_constructor = "dv_named%d"' % k])))]
                if draw(st.booleans()):
                    ms.append(m("dv_ctor%db" % k, None, [], ["result", ret, ["unit"], "std"], 'named_constructor = "dv_fallible%d"' % k))
            elif what == "stringifier":
                ms = [m("dv_to_string%d" % k, ref_self, [["w", ["write"], []]], None, "stringifier")]
            elif what == "comparison" and kind in ("opaque", "struct"):
                other = ["ref", None, False, it["name"], []] if kind == "opaque" else ["struct", it["name"], []]
                ms = [m("dv_cmp%d" % k, ref_self, [["other", other, []]], ["ordering"], "comparison")]
            elif what == "indexer" and kind == "opaque":
                iret = draw(st.sampled_from(["opt", "opt", "plain"] + ([] if steer.get("no_fallible_indexer") else ["result"])))
                iret = {"opt": ["opt", pt, "std"], "plain": pt, "result": ["result", pt, ["unit"], "std"]}[iret]
                ms = [m("dv_index%d" % k, ref_self, [["i", ["prim", draw(st.sampled_from(["usize", "usize", "u8", "i32", "u64"]))], []]], iret, "indexer")]
            elif what == "iterator" and kind == "opaque":
                ms = [m("next", ["ref", None, True], [], ["opt", pt, "std"], "iterator")]
            elif what == "iterable" and kind == "opaque":
                # the returned opaque gets an `iterator` method if it has none (an iterable without one is a lowering error)
                targets = [o for o in mod["items"] if o["kind"] == "opaque" and not o.get("lifetimes")
                           and not any(mm["name"] == "next" and not any("iterator)" in a for a in mm["attrs"]) for im in o["impls"] for mm in im["methods"])]
                if targets:
                    tgt = draw(st.sampled_from(targets))
                    ms = [m("dv_iter%d" % k, ref_self, [], ["box", tgt["name"], []], "iterable")]
                    if not any("iterator)" in a for im in tgt["impls"] for mm in im["methods"] for a in mm["attrs"]):
                        tgt["impls"].append({"attrs": [], "methods": [m("next", ["ref", None, True], [], ["opt", pt, "std"], "iterator")]})
            if ms:
                it["impls"].append({"attrs": [], "methods": ms})
                placed.append("special:" + what)
        default_order_keep = None
    for mod in prog["modules"]:
        ir.default_order(mod)
    return placed
