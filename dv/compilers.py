"""rustc / gcc / g++ / node wrappers used as oracles."""
import os, shutil, subprocess
from . import build

NODE_DIR = os.path.join(build.VERIF, "node")


def _run(cmd, cwd=None, timeout=300, env=None):
    try:
        p = subprocess.run(cmd, cwd=cwd, stdout=subprocess.PIPE, stderr=subprocess.PIPE, text=True, timeout=timeout, env=env)
    except subprocess.TimeoutExpired:
        raise build.Inconclusive("timeout: " + " ".join(cmd[:3]))
    return p.returncode, p.stdout, p.stderr


def rustc(art, lib_rs, out, crate_type="lib", emit="metadata", extra=(), crate_name="dvbridge"):
    """compile a bridge crate with the real proc macro and runtime"""
    cmd = ["rustc", "--edition", "2021", "--crate-name", crate_name, "--crate-type", crate_type, "-L", "dependency=" + art["deps"],
           "--extern", "diplomat=" + art["macro"], "--extern", "diplomat_runtime=" + art["runtime"],
           "--cap-lints", "allow", "-C", "debuginfo=0"]
    if emit:
        cmd += ["--emit", emit]
    cmd += ["-o", out] if crate_type != "lib" or emit != "metadata" else ["--out-dir", os.path.dirname(out)]
    cmd += list(extra) + [lib_rs]
    rc, so, se = _run(cmd, timeout=600)
    return rc == 0, se


def cc_syntax(compiler, std, incdir, header=None, source_text=None, workdir=None, extra=()):
    """-fsyntax-only on a TU that includes one header (or on given source text)"""
    src = os.path.join(workdir, "tu_%d.%s" % (abs(hash((header, source_text, std))) % 10 ** 9, "c" if compiler in ("gcc", "clang") else "cpp"))
    with open(src, "w") as f:
        f.write(source_text if source_text is not None else '#include "%s"\n' % header)
    cmd = [compiler, "-std=" + std, "-fsyntax-only", "-I", incdir, "-w"] + list(extra) + [src]
    rc, so, se = _run(cmd)
    os.remove(src)
    return rc == 0, se


def node_check(path):
    rc, so, se = _run(["node", "--check", path])
    return rc == 0, se


def install_js_stub(js_dir):
    for dp, _, fns in os.walk(js_dir):
        for fn in fns:
            if fn == "diplomat-wasm.mjs":
                shutil.copy(os.path.join(NODE_DIR, "stub-wasm.mjs"), os.path.join(dp, fn))


def node_import_all(js_dir):
    rc, so, se = _run(["node", os.path.join(NODE_DIR, "import-all.mjs"), js_dir])
    return rc == 0, (so + se)


def node_run(script, args=(), cwd=None, timeout=300):
    rc, so, se = _run(["node", script] + list(args), cwd=cwd, timeout=timeout)
    return rc, so, se
