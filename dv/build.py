"""Builds everything a check needs from the *current working tree* of the repository under test.

DV_REPO (default /repo) exists only so that the sensitivity self-test can point a check at a mutated copy.
"""
import fcntl, hashlib, os, shutil, subprocess, sys, time

VERIF = os.path.dirname(os.path.dirname(os.path.abspath(__file__)))
GUARD = "rust_diplomat_diplomat_verif"


def repo():
    return os.path.abspath(os.environ.get("DV_REPO", "/repo"))


def build_root():
    r = repo()
    tag = "main" if r == "/repo" else "alt-" + hashlib.sha1(r.encode()).hexdigest()[:10]
    d = os.path.join(VERIF, ".build", tag)
    os.makedirs(d, exist_ok=True)
    return d


class Inconclusive(Exception):
    pass


def _env():
    e = dict(os.environ)
    e["CARGO_NET_OFFLINE"] = "true"
    e.pop("RUSTFLAGS", None)
    return e


class _Lock:
    def __init__(self, name):
        self.path = os.path.join(build_root(), name + ".lock")

    def __enter__(self):
        self.f = open(self.path, "w")
        fcntl.flock(self.f, fcntl.LOCK_EX)

    def __exit__(self, *a):
        fcntl.flock(self.f, fcntl.LOCK_UN)
        self.f.close()


def _run(cmd, cwd, env, what, timeout=1800):
    t0 = time.time()
    p = subprocess.run(cmd, cwd=cwd, env=env, stdout=subprocess.PIPE, stderr=subprocess.STDOUT, text=True, timeout=timeout)
    if p.returncode != 0:
        sys.stderr.write(p.stdout[-6000:])
        raise Inconclusive("build step failed: %s (%s)" % (what, " ".join(cmd)))
    return time.time() - t0


def ensure_repo_artifacts():
    """diplomat-tool binary, the proc-macro .so and diplomat_runtime rlib, built with the hook guard on."""
    root = build_root()
    tdir = os.path.join(root, "repo-target")
    env = _env()
    env["CARGO_TARGET_DIR"] = tdir
    env["RUSTFLAGS"] = "--cfg %s" % GUARD
    with _Lock("cargo-repo"):
        _run(["cargo", "build", "--offline", "-q", "-p", "diplomat-tool", "-p", "diplomat", "-p", "diplomat-runtime"],
             repo(), env, "repository crates")
    d = os.path.join(tdir, "debug")
    art = {
        "tool": os.path.join(d, "diplomat-tool"),
        "macro": os.path.join(d, "libdiplomat.so"),
        "runtime": os.path.join(d, "libdiplomat_runtime.rlib"),
        "deps": os.path.join(d, "deps"),
    }
    for k, v in art.items():
        if not os.path.exists(v):
            raise Inconclusive("artifact missing after build: %s" % v)
    return art


def ensure_feature_tests_lib():
    """staticlib of the repository's own feature_tests bridge crate (its C++ drivers are the corpus leg of C02)"""
    root = build_root()
    tdir = os.path.join(root, "repo-target")
    env = _env()
    env["CARGO_TARGET_DIR"] = tdir
    env["RUSTFLAGS"] = "--cfg %s" % GUARD
    with _Lock("cargo-repo"):
        _run(["cargo", "build", "--offline", "-q", "-p", "diplomat-feature-tests"], repo(), env, "feature_tests crate")
    lib = os.path.join(tdir, "debug", "libdiplomat_feature_tests.a")
    if not os.path.exists(lib):
        raise Inconclusive("artifact missing after build: %s" % lib)
    return lib


def _rs_src():
    """The /verif/rs workspace; for a non-default DV_REPO a copy with the path dependencies rewritten."""
    src = os.path.join(VERIF, "rs")
    if repo() == "/repo":
        return src
    dst = os.path.join(build_root(), "rs-src")
    if os.environ.get("DV_RS_SRC_READY") == dst and os.path.exists(dst):
        return dst  # copied by the parent process of this run
    os.environ["DV_RS_SRC_READY"] = dst
    if os.path.exists(dst):
        shutil.rmtree(dst)
    shutil.copytree(src, dst, ignore=shutil.ignore_patterns("target", "corpus-work", "artifacts"))
    for dp, _, fns in os.walk(dst):
        for fn in fns:
            if fn == "Cargo.toml":
                p = os.path.join(dp, fn)
                s = open(p).read().replace('"/repo/', '"%s/' % repo())
                open(p, "w").write(s)
    return dst


def ensure_rs(package, flavor="release"):
    """Build a /verif/rs package against the repository under test. flavor: release | asan | debug."""
    root = build_root()
    src = _rs_src()
    env = _env()
    if flavor == "asan":
        tdir = os.path.join(root, "rs-asan")
        # debug assertions on: the runtime's own debug_assert!s and std's unsafe-precondition checks (slice::from_raw_parts on NULL, ...) fire in this leg
        env["RUSTFLAGS"] = "-Zsanitizer=address -C debug-assertions=on --cfg %s" % GUARD
        cmd = ["cargo", "+nightly", "build", "--offline", "-q", "--release", "-p", package, "--target", "x86_64-unknown-linux-gnu"]
        out = os.path.join(tdir, "x86_64-unknown-linux-gnu", "release")
    elif flavor == "debug":
        tdir = os.path.join(root, "rs")
        env["RUSTFLAGS"] = "--cfg %s" % GUARD
        cmd = ["cargo", "build", "--offline", "-q", "-p", package]
        out = os.path.join(tdir, "debug")
    else:
        tdir = os.path.join(root, "rs")
        env["RUSTFLAGS"] = "--cfg %s" % GUARD
        cmd = ["cargo", "build", "--offline", "-q", "--release", "-p", package]
        out = os.path.join(tdir, "release")
    env["CARGO_TARGET_DIR"] = tdir
    with _Lock("cargo-rs-" + flavor):
        _run(cmd, src, env, "%s (%s)" % (package, flavor))
    return out


def ensure_fuzz(target):
    """build one libFuzzer target of rs/fuzz (nightly, ASan) against the repository under test; returns the binary path"""
    root = build_root()
    src = os.path.join(_rs_src(), "fuzz")
    tdir = os.path.join(root, "fuzz")
    env = _env()
    env["CARGO_TARGET_DIR"] = tdir
    lock = os.path.join(src, "Cargo.lock")
    if not os.path.exists(lock):
        shutil.copy(os.path.join(repo(), "Cargo.lock"), lock)
    with _Lock("cargo-fuzz"):
        _run(["cargo", "+nightly", "fuzz", "build", target], src, env, "fuzz target " + target, timeout=3600)
    b = os.path.join(tdir, "x86_64-unknown-linux-gnu", "release", target)
    if not os.path.exists(b):
        raise Inconclusive("fuzz binary missing: " + b)
    return b


def ensure_miri_runner():
    """(cmd prefix, cwd, env) to run rtcheck under miri"""
    root = build_root()
    env = {"CARGO_TARGET_DIR": os.path.join(root, "miri"), "MIRIFLAGS": "-Zmiri-disable-isolation -Zmiri-permissive-provenance", "CARGO_NET_OFFLINE": "true"}
    return ["cargo", "+nightly", "miri", "run", "-q", "-p", "rtcheck", "--"], _rs_src(), env


def workdir(tag):
    d = os.path.join(VERIF, ".work", "%s-%d" % (tag, os.getpid()))
    if os.path.exists(d):
        shutil.rmtree(d)
    os.makedirs(d)
    return d


def rm_workdir(d):
    shutil.rmtree(d, ignore_errors=True)
