"""Reference model of the documented symbol naming scheme (book/src/abi.md):
Type_method / Type_destroy, with the nearest enclosing #[diplomat::abi_rename = "pattern"] applied
(method > impl > module for methods; type > module for destructors); {0} is replaced by the default name,
a pattern without {0} replaces the name entirely."""
import re

ABI_RE = re.compile(r'#\[diplomat::abi_rename\s*(?:=\s*|\()\s*"([^"]*)"\s*\)?\]')


def pattern_of(attrs):
    pat = None
    for a in attrs:
        m = ABI_RE.match(a.strip())
        if m:
            pat = m.group(1)  # a later attribute on the same item overrides an earlier one
    return pat


def apply(pat, name):
    if pat is None:
        return name
    if "{0}" in pat:
        i = pat.index("{0}")
        return pat[:i] + name + pat[i + 3:]
    if "{}" in pat:         # the spelling book/src/abi.md uses (`mylibrary_{}`)
        i = pat.index("{}")
        return pat[:i] + name + pat[i + 2:]
    return pat


def method_symbol(mod, it, impl, m):
    for attrs in (m.get("attrs", []), impl.get("attrs", []), mod.get("attrs", [])):
        p = pattern_of(attrs)
        if p is not None:
            return apply(p, "%s_%s" % (it["name"], m["name"]))
    return "%s_%s" % (it["name"], m["name"])


def dtor_symbol(mod, it):
    for attrs in (it.get("attrs", []), mod.get("attrs", [])):
        p = pattern_of(attrs)
        if p is not None:
            return apply(p, "%s_destroy" % it["name"])
    return "%s_destroy" % it["name"]


def exported(prog):
    """every symbol the proc macro must export, regardless of backend attributes"""
    out = set()
    for mod in prog["modules"]:
        for it in mod["items"]:
            if it["kind"] == "opaque":
                out.add(dtor_symbol(mod, it))
            for impl in it.get("impls", []):
                for m in impl["methods"]:
                    out.add(method_symbol(mod, it, impl, m))
    return out
