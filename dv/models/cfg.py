"""Reference evaluator for #[diplomat::attr(<cfg>, ...)] conditions, written from book/src/attrs.md."""
import re

BACKEND_NAMES = ["c", "cpp", "js", "dart", "kotlin", "nanobind", "demo_gen"]


def tokenize(s):
    return re.findall(r"[A-Za-z_][A-Za-z_0-9]*|\*|\(|\)|,|=|\"[^\"]*\"", s)


def parse(s):
    toks = tokenize(s)
    pos = [0]

    def peek():
        return toks[pos[0]] if pos[0] < len(toks) else None

    def eat(t=None):
        x = peek()
        if t is not None and x != t:
            raise ValueError("expected %r got %r in %r" % (t, x, s))
        pos[0] += 1
        return x

    def expr():
        t = eat()
        if t == "*":
            return ("star",)
        if t in ("not", "any", "all") and peek() == "(":
            eat("(")
            args = []
            while peek() != ")":
                args.append(expr())
                if peek() == ",":
                    eat(",")
            eat(")")
            if t == "not":
                if len(args) != 1:
                    raise ValueError("not() takes one argument")
                return ("not", args[0])
            return (t, args)
        if peek() == "=":
            eat("=")
            v = eat().strip('"')
            return ("nv", t, v)
        return ("name", t)

    e = expr()
    if pos[0] != len(toks):
        raise ValueError("trailing tokens in %r" % s)
    return e


def answers_to(backend, name):
    """does `backend` answer to the backend-name atom `name`?"""
    if name == backend:
        return True
    if backend == "demo_gen" and name == "js":
        return True
    return False


def evaluate(e, backend, supports):
    """supports: dict flag -> bool for this backend (calibrated by the caller)"""
    k = e[0]
    if k == "star":
        return True
    if k == "name":
        return answers_to(backend, e[1])
    if k == "nv":
        if e[1] == "supports":
            return bool(supports[e[2]])
        raise ValueError("unknown name-value atom %r" % (e,))
    if k == "not":
        return not evaluate(e[1], backend, supports)
    if k == "any":
        return any(evaluate(x, backend, supports) for x in e[1])
    if k == "all":
        return all(evaluate(x, backend, supports) for x in e[1])
    raise ValueError(e)


def render(e):
    k = e[0]
    if k == "star":
        return "*"
    if k == "name":
        return e[1]
    if k == "nv":
        return "%s = %s" % (e[1], e[2])
    if k == "not":
        return "not(%s)" % render(e[1])
    return "%s(%s)" % (k, ", ".join(render(x) for x in e[1]))


def depth(e):
    k = e[0]
    if k in ("star", "name", "nv"):
        return 0
    if k == "not":
        return 1 + depth(e[1])
    return 1 + max([depth(x) for x in e[1]] or [0])


ATTR_RE = re.compile(r"#\[diplomat::attr\((.*),\s*(disable|rename\s*=\s*\"([^\"]*)\"|namespace\s*=\s*\"([^\"]*)\"|error)\)\]$")


def parse_attr(a):
    """'#[diplomat::attr(CFG, disable)]' -> (cfg_ast, kind, value) or None"""
    m = ATTR_RE.match(a.strip())
    if not m:
        return None
    body = m.group(2)
    kind = body.split("=")[0].strip()
    val = m.group(3) if kind == "rename" else m.group(4) if kind == "namespace" else None
    return parse(m.group(1)), kind, val
