"""Reference model of the C ABI of every method and struct of a bridge program (written from the book and the
proc macro's documented lowering), as a small algebra:
  ("i8"|"u8"|...|"usize"|"isize"|"f32"|"f64"|"bool"|"ptr"|"void",)  scalars
  ("rec", [fields])   by-value record          ("union", [arms])
Option<T> (non-pointer) = rec[union[T], bool]; Result<T,E> = rec[union[T?,E?], bool] (unit arms occupy nothing);
slices/strs = rec[ptr, usize]; optional/borrowed/owned opaques and DiplomatWrite = ptr; enums = i32; DiplomatChar = u32; DiplomatByte = u8."""
from ..gen import ir

PRIM = {"i8": "i8", "u8": "u8", "i16": "i16", "u16": "u16", "i32": "i32", "u32": "u32", "i64": "i64", "u64": "u64",
        "isize": "isize", "usize": "usize", "f32": "f32", "f64": "f64", "bool": "bool", "DiplomatChar": "char", "DiplomatByte": "byte"}


def abi_type(prog, t):
    k = t[0]
    if k == "prim":
        return (PRIM[t[1]],)
    if k == "enum":
        return ("i32",)
    if k == "struct":
        it = ir.find_item(prog, t[1])
        if it["kind"] == "enum":
            return ("i32",)
        return ("rec", [abi_type(prog, f[1]) for f in it["fields"]])
    if k in ("ref", "box", "write"):
        return ("ptr",)
    if k == "opt":
        if t[1][0] in ("ref", "box"):
            return ("ptr",)
        return ("rec", [("union", [abi_type(prog, t[1])]), ("bool",)])
    if k in ("slice", "str", "strs"):
        return ("rec", [("ptr",), ("usize",)])
    if k == "result":
        arms = [abi_type(prog, a) for a in (t[1], t[2]) if a[0] != "unit"]
        return ("rec", [("union", arms), ("bool",)])
    if k == "unit":
        return ("void",)
    if k == "ordering":
        return ("i8",)        # core::cmp::Ordering crosses as its i8 discriminant (the macro rewrites the return type)
    if k == "cb":
        return ("rec", [("ptr",), ("ptr",), ("ptr",)])
    if k == "raw" and t[1].startswith("impl "):
        # a trait object: { data, vtable { destructor, size, alignment, one function pointer per method } }
        tr = next(x for x in prog.get("traits", []) if x["name"] == t[1][5:])
        return ("rec", [("ptr",), ("rec", [("ptr",), ("usize",), ("usize",)] + [("ptr",) for _ in tr["methods"]])])
    raise ValueError(t)


def method_abi(prog, it, m):
    """(params, ret) in C ABI order: self first"""
    ps = []
    if m["self"] is not None:
        if m["self"][0] == "ref":
            ps.append(("ptr",))
        elif it["kind"] == "enum":
            ps.append(("i32",))
        else:
            ps.append(("rec", [abi_type(prog, f[1]) for f in it["fields"]]))
    for q in m["params"]:
        ps.append(abi_type(prog, q[1]))
    r = m["ret"]
    if r is None:
        ret = ("void",)
    elif r[0] == "opt" and r[1][0] == "unit":
        ret = ("rec", [("union", []), ("bool",)])
    else:
        ret = abi_type(prog, r)
    return ps, ret


def normalize(a):
    """drop empty unions so that rec[union[], bool] == rec[bool]"""
    if a[0] == "rec":
        fs = [normalize(f) for f in a[1]]
        fs = [f for f in fs if not (f[0] == "union" and not f[1])]
        return ("rec", fs)
    if a[0] == "union":
        return ("union", [normalize(f) for f in a[1]])
    return a


def show(a):
    if a[0] == "rec":
        return "{" + ", ".join(show(f) for f in a[1]) + "}"
    if a[0] == "union":
        return "union(" + " | ".join(show(f) for f in a[1]) + ")"
    return a[0]


# what each FFI dialect may declare for a scalar of the model (fixed in advance from the FFI libraries' documented meaning)
ACCEPT = {
    "c": {"char": {"u32"}, "byte": {"u8"}},
    "dart": {"char": {"u32"}, "byte": {"u8"}},
    # JNA: Int for a 32-bit code point, Byte for a one-byte bool in fields/returns (Boolean in signatures), Byte for the raw DiplomatByte
    # (JNA `Pointer` for the vtable's size/alignment words: pointer-sized integers)
    "kotlin": {"char": {"i32"}, "byte": {"u8", "i8"}, "bool": {"bool", "i8"}, "usize": {"usize", "ptr"}},
    "kotlin-callback": {"char": {"i32", "u32"}, "byte": {"u8", "i8"}, "bool": {"bool", "i8"}, "isize": {"isize", "i64"}, "usize": {"usize", "u64"}},
}


def compatible(expected, got, dialect):
    """dialect "kotlin-callback": JNA callback interfaces use Kotlin-facing types; isize/usize are Long/ULong there, which is the
    same width on the 64-bit targets this harness models"""
    expected, got = normalize(expected), normalize(got)
    if expected[0] in ("rec", "union"):
        if got[0] != expected[0] or len(got[1]) != len(expected[1]):
            return False
        return all(compatible(e, g, dialect) for e, g in zip(expected[1], got[1]))
    if got[0] in ("rec", "union"):
        return False
    ok = ACCEPT[dialect].get(expected[0], {expected[0]})
    return got[0] in ok
