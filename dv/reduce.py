"""Greedy structural reducer for bridge programs (used where one oracle evaluation costs a tool/compile run).

reduce(prog, fails, budget) keeps applying deletions that preserve well-formedness while `fails(prog)` stays true.
"""
import copy
from .gen import ir


def _referenced(prog):
    used = set()
    for mod, it in ir.all_items(prog):
        for f in it.get("fields", []):
            used.update(ir.named_types(f[1]))
        for impl in it.get("impls", []):
            for m in impl["methods"]:
                for q in m["params"]:
                    used.update(ir.named_types(q[1]))
                if m["ret"]:
                    used.update(ir.named_types(m["ret"]))
    return used


def _fix_orders(prog):
    for mod in prog["modules"]:
        ir.default_order(mod)
        needed = set()
        for it in mod["items"]:
            for f in it.get("fields", []):
                needed.update(ir.named_types(f[1]))
            for impl in it.get("impls", []):
                for m in impl["methods"]:
                    for q in m["params"]:
                        needed.update(ir.named_types(q[1]))
                    if m["ret"]:
                        needed.update(ir.named_types(m["ret"]))
        mod["uses"] = [u for u in mod.get("uses", []) if u.split("::")[-1] in needed]
    prog["modules"] = [m for m in prog["modules"] if m["items"]] or prog["modules"][:1]
    prog.pop("top_order", None)


def _fix_method_lifetimes(it, m):
    tl = [l[0] for l in it.get("lifetimes", [])]
    used = set()
    if m["self"] and m["self"][0] == "ref" and m["self"][1]:
        used.add(m["self"][1])
    for q in m["params"]:
        used.update(ir.type_lifetimes(q[1]))
    if m["ret"]:
        used.update(ir.type_lifetimes(m["ret"]))
    m["lifetimes"] = [l for l in m["lifetimes"] if l[0] in used and l[0] not in tl]
    have = {l[0] for l in m["lifetimes"]}
    for l in sorted(used):
        if l not in have and l not in tl:
            m["lifetimes"].append([l, []])
    for l in m["lifetimes"]:
        l[1] = [b for b in l[1] if b in used or b in tl]


def candidates(prog):
    """yield functions that mutate a deep copy into a smaller program"""
    # 1. drop methods
    for mi, mod in enumerate(prog["modules"]):
        for ii, it in enumerate(mod["items"]):
            for pi, impl in enumerate(it.get("impls", [])):
                for k in range(len(impl["methods"]) - 1, -1, -1):
                    def f(p, mi=mi, ii=ii, pi=pi, k=k):
                        del p["modules"][mi]["items"][ii]["impls"][pi]["methods"][k]
                        p["modules"][mi]["items"][ii]["impls"] = [x for x in p["modules"][mi]["items"][ii]["impls"] if x["methods"] or x.get("attrs")]
                    yield "drop-method", f
    # 2. drop unreferenced types
    used = _referenced(prog)
    for mi, mod in enumerate(prog["modules"]):
        for ii in range(len(mod["items"]) - 1, -1, -1):
            if mod["items"][ii]["name"] not in used:
                def f(p, mi=mi, ii=ii):
                    del p["modules"][mi]["items"][ii]
                yield "drop-type", f
    # 3. simplify methods
    for mi, mod in enumerate(prog["modules"]):
        for ii, it in enumerate(mod["items"]):
            for pi, impl in enumerate(it.get("impls", [])):
                for k, m in enumerate(impl["methods"]):
                    for q in range(len(m["params"]) - 1, -1, -1):
                        def f(p, mi=mi, ii=ii, pi=pi, k=k, q=q):
                            it2 = p["modules"][mi]["items"][ii]
                            m2 = it2["impls"][pi]["methods"][k]
                            del m2["params"][q]
                            _fix_method_lifetimes(it2, m2)
                        yield "drop-param", f
                    if m["ret"] is not None:
                        def f(p, mi=mi, ii=ii, pi=pi, k=k):
                            it2 = p["modules"][mi]["items"][ii]
                            m2 = it2["impls"][pi]["methods"][k]
                            m2["ret"] = None
                            _fix_method_lifetimes(it2, m2)
                        yield "drop-ret", f
                        if m["ret"][0] == "result":
                            for arm in (1, 2):
                                if m["ret"][arm][0] != "unit":
                                    def f(p, mi=mi, ii=ii, pi=pi, k=k, arm=arm):
                                        it2 = p["modules"][mi]["items"][ii]
                                        m2 = it2["impls"][pi]["methods"][k]
                                        m2["ret"][arm] = ["unit"]
                                        _fix_method_lifetimes(it2, m2)
                                    yield "unit-arm", f
                    if m["self"] is not None and it["kind"] != "opaque" or (m["self"] is not None and it["kind"] == "opaque"):
                        def f(p, mi=mi, ii=ii, pi=pi, k=k):
                            it2 = p["modules"][mi]["items"][ii]
                            m2 = it2["impls"][pi]["methods"][k]
                            m2["self"] = None
                            _fix_method_lifetimes(it2, m2)
                        yield "drop-self", f
                    if m.get("attrs"):
                        def f(p, mi=mi, ii=ii, pi=pi, k=k):
                            p["modules"][mi]["items"][ii]["impls"][pi]["methods"][k]["attrs"] = []
                        yield "drop-method-attrs", f
                if impl.get("attrs"):
                    def f(p, mi=mi, ii=ii, pi=pi):
                        p["modules"][mi]["items"][ii]["impls"][pi]["attrs"] = []
                    yield "drop-impl-attrs", f
            if it.get("attrs"):
                def f(p, mi=mi, ii=ii):
                    p["modules"][mi]["items"][ii]["attrs"] = []
                yield "drop-type-attrs", f
            # 4. drop fields / variants (keep at least one)
            if it["kind"] == "struct":
                for fi in range(len(it["fields"]) - 1, -1, -1):
                    if len(it["fields"]) > 1:
                        def f(p, mi=mi, ii=ii, fi=fi):
                            it2 = p["modules"][mi]["items"][ii]
                            del it2["fields"][fi]
                            if not any(ir.type_lifetimes(x[1]) for x in it2["fields"]) and it2.get("lifetimes"):
                                raise ValueError("would orphan the struct's lifetime")
                        yield "drop-field", f
            if it["kind"] == "enum":
                for vi in range(len(it["variants"]) - 1, 0, -1):
                    def f(p, mi=mi, ii=ii, vi=vi):
                        del p["modules"][mi]["items"][ii]["variants"][vi]
                    yield "drop-variant", f
        if mod.get("attrs"):
            def f(p, mi=mi):
                p["modules"][mi]["attrs"] = []
            yield "drop-mod-attrs", f
    if prog.get("extra_top"):
        def f(p):
            p["extra_top"] = []
        yield "drop-extra", f


def reduce(prog, fails, budget=60, kinds=None):
    cur = copy.deepcopy(prog)
    evals = 0
    progress = True
    while progress and evals < budget:
        progress = False
        for kind, f in list(candidates(cur)):
            if kinds is not None and kind not in kinds:
                continue
            if evals >= budget:
                break
            cand = copy.deepcopy(cur)
            try:
                f(cand)
                _fix_orders(cand)
            except (ValueError, IndexError, KeyError):
                continue
            evals += 1
            try:
                ok = fails(cand)
            except Exception:
                ok = False
            if ok:
                cur = cand
                progress = True
                break
    return cur, evals
