"""Driver for Engine R (rtcheck binary): runs legs in parallel worker processes and merges their summaries."""
import json, os, subprocess, sys
from concurrent.futures import ThreadPoolExecutor
from . import build

VERIF = build.VERIF


def run_legs(pid, legs, seed):
    """legs: list of dict(name, flavor, cases, workers, extra=[...], env={}, runner=[...])"""
    bins = {}
    for leg in legs:
        fl = leg["flavor"]
        if fl not in bins and fl in ("release", "asan", "debug"):
            bins[fl] = os.path.join(build.ensure_rs("rtcheck", fl), "rtcheck")
    work = build.workdir(pid.lower() + "-rt")
    jobs = []
    for li, leg in enumerate(legs):
        for w in range(leg["workers"]):
            out = os.path.join(work, "%s-%d.json" % (leg["name"], w))
            s = (seed * 1000003 + li * 1009 + w * 17 + 1) & 0x7FFFFFFFFFFFFFFF
            if leg["flavor"] == "miri":
                cmd = leg["runner"] + ["--", pid.lower()]
            else:
                cmd = [bins[leg["flavor"]], pid.lower()]
            cmd += ["--seed", str(s), "--cases", str(leg["cases"]), "--out", out,
                    "--replays-dir", os.path.join(VERIF, "replays")] + leg.get("extra", [])
            jobs.append((leg, w, cmd, out))

    def one(job):
        leg, w, cmd, out = job
        env = dict(os.environ)
        env.update(leg.get("env", {}))
        env.setdefault("ASAN_OPTIONS", "detect_leaks=1:abort_on_error=0:exitcode=97")
        try:
            p = subprocess.run(cmd, stdout=subprocess.PIPE, stderr=subprocess.PIPE, text=True, env=env,
                               cwd=leg.get("cwd"), timeout=leg.get("timeout", 3600))
        except subprocess.TimeoutExpired:
            raise build.Inconclusive("leg %s timed out" % leg["name"])
        return leg, w, p, out, cmd

    merged = {"evaluations": 0, "nontrivial": 0, "distinct_nontrivial": 0, "labels": {}, "samples": [],
              "violations": [], "legs": {}, "extra": {}}
    with ThreadPoolExecutor(max_workers=16) as ex:
        results = list(ex.map(one, jobs))
    for leg, w, p, out, cmd in results:
        name = leg["name"]
        if p.returncode not in (0, 1) or not os.path.exists(out):
            # sanitizer / miri report, or a crash of the code under test
            tail = (p.stderr or "")[-3000:]
            if "AddressSanitizer" in tail or "LeakSanitizer" in tail or "Undefined Behavior" in tail or p.returncode in (97, -6, -11, 134, 139):
                rp = os.path.join(VERIF, "replays", pid, "%s-w%d-crash.txt" % (name, w))
                os.makedirs(os.path.dirname(rp), exist_ok=True)
                open(rp, "w").write("cmd: %s\nexit: %s\n%s\n%s" % (" ".join(cmd), p.returncode, p.stdout[-3000:], tail))
                merged["violations"].append({"replay": rp, "message": "leg %s: memory error / abort reported:\n%s" % (name, tail[-1500:])})
                continue
            sys.stderr.write(p.stdout[-2000:] + tail)
            raise build.Inconclusive("leg %s failed to run (exit %s)" % (name, p.returncode))
        d = json.load(open(out))
        L = merged["legs"].setdefault(name, {"evaluations": 0, "distinct_nontrivial": 0})
        L["evaluations"] += d["evaluations"]
        L["distinct_nontrivial"] += d["distinct_nontrivial"]
        merged["evaluations"] += d["evaluations"]
        merged["nontrivial"] += d["nontrivial"]
        merged["distinct_nontrivial"] += d["distinct_nontrivial"]  # different seeds per worker; duplicates across workers are rare and not re-counted
        for k, v in d["labels"].items():
            merged["labels"][k] = merged["labels"].get(k, 0) + v
        if len(merged["samples"]) < 4:
            merged["samples"].extend(d["samples"][:2])
        for k, v in (d.get("extra") or {}).items():
            merged["extra"].setdefault(name, {})[k] = v
        for v in d["violations"]:
            merged["violations"].append({"replay": v["replay"], "message": "leg %s: %s" % (name, v["message"])})
    build.rm_workdir(work)
    return merged


def replay(pid, path, flavor="release", extra=()):
    b = os.path.join(build.ensure_rs("rtcheck", flavor), "rtcheck")
    p = subprocess.run([b, pid.lower(), "--replay", path] + list(extra), stdout=subprocess.PIPE, stderr=subprocess.STDOUT, text=True)
    sys.stdout.write(p.stdout)
    if p.returncode == 1:
        return {"violations": [{"replay": path, "message": p.stdout[-1500:]}]}
    if p.returncode != 0:
        raise build.Inconclusive("replay failed to run")
    return {"violations": []}
