"""Driver for Engine R (rtcheck binary): runs legs in parallel worker processes and merges their summaries."""
import json, os, subprocess, sys
from concurrent.futures import ThreadPoolExecutor
from . import build

VERIF = build.VERIF


def run_legs(pid, legs, seed):
    """legs: list of dict(name, flavor, cases, workers, extra=[...], env={}, runner=[...])"""
    bins = {}
    for leg in legs:
        fl = leg["flavor"]
        if fl not in bins and fl in ("release", "asan", "debug"):
            bins[fl] = os.path.join(build.ensure_rs("rtcheck", fl), "rtcheck")
    work = build.workdir(pid.lower() + "-rt")
    jobs = []
    fuzz_results = []
    for li, leg in enumerate(legs):
        if leg["flavor"] == "fuzz":
            fuzz_results.append(run_fuzz(pid, leg, seed + li, work))
            continue
        for w in range(leg["workers"]):
            out = os.path.join(work, "%s-%d.json" % (leg["name"], w))
            s = (seed * 1000003 + li * 1009 + w * 17 + 1) & 0x7FFFFFFFFFFFFFFF
            if leg["flavor"] == "miri":
                prefix, cwd, menv = build.ensure_miri_runner()
                cmd = prefix + [pid.lower()]
                leg = dict(leg, cwd=cwd, env=dict(leg.get("env", {}), **menv), timeout=leg.get("timeout", 5400))
            else:
                cmd = [bins[leg["flavor"]], pid.lower()]
            cmd += ["--seed", str(s), "--cases", str(leg["cases"]), "--out", out,
                    "--replays-dir", os.path.join(VERIF, "replays")] + leg.get("extra", [])
            jobs.append((leg, w, cmd, out))

    def one(job):
        leg, w, cmd, out = job
        env = dict(os.environ)
        env.update(leg.get("env", {}))
        env.setdefault("ASAN_OPTIONS", "detect_leaks=1:abort_on_error=0:exitcode=97")
        try:
            p = subprocess.run(cmd, stdout=subprocess.PIPE, stderr=subprocess.PIPE, text=True, env=env,
                               cwd=leg.get("cwd"), timeout=leg.get("timeout", 3600))
        except subprocess.TimeoutExpired:
            raise build.Inconclusive("leg %s timed out" % leg["name"])
        return leg, w, p, out, cmd

    merged = {"evaluations": 0, "nontrivial": 0, "distinct_nontrivial": 0, "labels": {}, "samples": [],
              "violations": [], "legs": {}, "extra": {}}
    with ThreadPoolExecutor(max_workers=16) as ex:
        results = list(ex.map(one, jobs))
    for leg, w, p, out, cmd in results:
        name = leg["name"]
        if p.returncode not in (0, 1) or not os.path.exists(out):
            # sanitizer / miri report, or a crash of the code under test
            tail = (p.stderr or "")[-3000:]
            if "AddressSanitizer" in tail or "LeakSanitizer" in tail or "Undefined Behavior" in tail or p.returncode in (97, -6, -11, 134, 139):
                rp = os.path.join(VERIF, "replays", pid, "%s-w%d-crash.txt" % (name, w))
                os.makedirs(os.path.dirname(rp), exist_ok=True)
                open(rp, "w").write("cmd: %s\nexit: %s\n%s\n%s" % (" ".join(cmd), p.returncode, p.stdout[-3000:], tail))
                merged["violations"].append({"replay": rp, "message": "leg %s: memory error / abort reported:\n%s" % (name, tail[-1500:])})
                continue
            sys.stderr.write(p.stdout[-2000:] + tail)
            raise build.Inconclusive("leg %s failed to run (exit %s)" % (name, p.returncode))
        d = json.load(open(out))
        L = merged["legs"].setdefault(name, {"evaluations": 0, "distinct_nontrivial": 0})
        L["evaluations"] += d["evaluations"]
        L["distinct_nontrivial"] += d["distinct_nontrivial"]
        merged["evaluations"] += d["evaluations"]
        merged["nontrivial"] += d["nontrivial"]
        merged["distinct_nontrivial"] += d["distinct_nontrivial"]  # different seeds per worker; duplicates across workers are rare and not re-counted
        for k, v in d["labels"].items():
            merged["labels"][k] = merged["labels"].get(k, 0) + v
        if len(merged["samples"]) < 4:
            merged["samples"].extend(d["samples"][:2])
        for k, v in (d.get("extra") or {}).items():
            merged["extra"].setdefault(name, {})[k] = v
        for v in d["violations"]:
            merged["violations"].append({"replay": v["replay"], "message": "leg %s: %s" % (name, v["message"])})
    for fr in fuzz_results:
        merged["legs"][fr["name"]] = {"evaluations": fr["runs"], "distinct_nontrivial": 0, "coverage_edges": fr["cov"], "corpus": fr["corpus"]}
        merged["evaluations"] += fr["runs"]
        merged["violations"].extend(fr["violations"])
    build.rm_workdir(work)
    return merged


def run_fuzz(pid, leg, seed, work):
    """one coverage-guided campaign (libFuzzer, ASan) of fixed work: -runs=N from the committed seed corpus"""
    import re, shutil
    b = build.ensure_fuzz(leg["target"])
    corpus = os.path.join(work, "corpus-" + leg["target"])
    os.makedirs(corpus, exist_ok=True)
    seedc = os.path.join(VERIF, "rs", "fuzz", "seed-corpus", leg["target"])
    if os.path.isdir(seedc):
        for f in os.listdir(seedc):
            shutil.copy(os.path.join(seedc, f), corpus)
    art = os.path.join(work, "artifacts-" + leg["target"]) + "/"
    os.makedirs(art, exist_ok=True)
    cmd = [b, corpus, "-runs=%d" % leg["runs"], "-seed=%d" % (seed % (2 ** 31) + 1), "-max_len=%d" % leg.get("max_len", 512), "-len_control=0",
           "-artifact_prefix=" + art, "-timeout=30", "-rss_limit_mb=4096", "-jobs=0", "-print_final_stats=1"]
    env = dict(os.environ)
    env["ASAN_OPTIONS"] = "detect_leaks=1"
    try:
        p = subprocess.run(cmd, stdout=subprocess.PIPE, stderr=subprocess.STDOUT, text=True, env=env, timeout=leg.get("timeout", 5400), errors="replace")
    except subprocess.TimeoutExpired:
        raise build.Inconclusive("fuzz campaign %s timed out" % leg["target"])
    out = p.stdout
    m = re.search(r"#(\d+)\s+DONE\s+cov: (\d+).*corp: (\d+)", out)
    res = {"name": leg["name"], "runs": int(m.group(1)) if m else 0, "cov": int(m.group(2)) if m else 0, "corpus": int(m.group(3)) if m else 0, "violations": []}
    if p.returncode != 0:
        arts = sorted(os.listdir(art))
        if not arts and "timeout" in out.lower() and "violation" not in out:
            raise build.Inconclusive("fuzz campaign %s: libFuzzer timeout/oom: %s" % (leg["target"], out[-300:]))
        d = os.path.join(VERIF, "replays", pid)
        os.makedirs(d, exist_ok=True)
        rp = os.path.join(d, "fuzz-%s-%s" % (leg["target"], arts[0] if arts else "noartifact"))
        if arts:
            shutil.copy(os.path.join(art, arts[0]), rp)
        else:
            open(rp, "w").write(out[-4000:])
        mm = re.search(r"(C\d\d violation: .*)", out)
        res["violations"].append({"replay": rp, "message": "leg %s (libFuzzer+ASan, target %s): %s\n%s" % (leg["name"], leg["target"], mm.group(1)[:600] if mm else "crash / sanitizer report", out[-1200:])})
        if not m:
            mr = re.findall(r"#(\d+)\s", out)
            res["runs"] = int(mr[-1]) if mr else 0
    return res


FUZZ_TARGETS = {"C12": ["c12_write"], "C03": ["c03_ledger"], "C16": ["c16_views", "c16_utf8"]}


def replay(pid, path, flavor="release", extra=()):
    base = os.path.basename(path)
    if base.startswith("fuzz-"):
        target = next(t for t in FUZZ_TARGETS[pid] if base.startswith("fuzz-" + t))
        b = build.ensure_fuzz(target)
        p = subprocess.run([b, path], stdout=subprocess.PIPE, stderr=subprocess.STDOUT, text=True, errors="replace")
        sys.stdout.write(p.stdout[-3000:])
        return {"violations": [{"replay": path, "message": p.stdout[-1200:]}] if p.returncode != 0 else []}
    b = os.path.join(build.ensure_rs("rtcheck", flavor), "rtcheck")
    p = subprocess.run([b, pid.lower(), "--replay", path] + list(extra), stdout=subprocess.PIPE, stderr=subprocess.STDOUT, text=True)
    sys.stdout.write(p.stdout)
    if p.returncode == 1:
        return {"violations": [{"replay": path, "message": p.stdout[-1500:]}]}
    if p.returncode != 0:
        raise build.Inconclusive("replay failed to run")
    return {"violations": []}
