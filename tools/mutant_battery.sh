#!/bin/bash
# Runs the battery of own mutants (one-line source mutations) against the checks that should kill them.
# usage: tools/mutant_battery.sh [name-filter]
cd /verif
run() { # name file sed checks...
  name="$1"; if [ -n "$FILTER" ] && [[ "$name" != *$FILTER* ]]; then return; fi
  out=$(timeout 2400 tools/mutant.sh "$@" 2>&1); rc=$?
  caught=$(echo "$out" | grep -E "^== C[0-9]+ exit=" | tr '\n' ' ')
  echo "$name rc=$rc :: $caught"
  rm -rf /verif/replays/C*
}
FILTER="$1"
run c01-struct-fields-reversed tool/templates/c/struct.h.jinja 's/{%- for field in fields %}/{%- for field in fields.iter().rev() %}/' C01
run c01-option-isok-first tool/templates/c/capi.h.jinja 's/typedef struct Option##name {union { c_ty ok; }; bool is_ok; } Option##name;/typedef struct Option##name {bool is_ok; union { c_ty ok; }; } Option##name;/' C01 C10
run c01-result-isok-first tool/src/c/ty.rs 's/format!("typedef struct {fn_name}_result {{{union_def} bool is_ok;}} {fn_name}_result;\\n{fn_name}_result")/format!("typedef struct {fn_name}_result {{bool is_ok; {union_def}}} {fn_name}_result;\\n{fn_name}_result")/' C01 C10
run c02-optional-ptr-always-asffi tool/src/cpp/ty.rs 's/format!("{cpp_name} ? {cpp_name}->AsFFI() : nullptr").into()/format!("{cpp_name}->AsFFI()").into()/' C02
run c04-shorter-lifetimes core/src/hir/methods/borrowing_param.rs 's/\.all_longer_lifetimes(lt)/.all_shorter_lifetimes(lt)/' C04
run c07-dart-u16-as-int16 tool/src/dart/formatter.rs '0,/PrimitiveType::Int(IntType::U16) => "ffi.Uint16"/s//PrimitiveType::Int(IntType::U16) => "ffi.Int16"/' C07
run c08-option-size-plus-one tool/src/js/layout.rs 's/Layout::from_size_align(size + align, align).unwrap();/Layout::from_size_align(size + 1, align).unwrap();/' C08 C15
run c13-not-does-not-negate core/src/hir/attrs.rs 's/DiplomatBackendAttrCfg::Not(ref c) => !self.satisfies_cfg(c, None)?,/DiplomatBackendAttrCfg::Not(ref c) => self.satisfies_cfg(c, None)?,/' C13
run c16-null-check-removed runtime/src/slices.rs '0,/if x.ptr.is_null() {/s//if false \&\& x.ptr.is_null() {/' C16
run c17-kebab-subkey tool/src/config.rs 's/let subkey = heck::AsSnakeCase(subkey).to_string();/let subkey = subkey.to_string();/' C17
run c12-grow-off-by-one runtime/src/write.rs 's/if needed_len > self.cap {/if needed_len >= self.cap {/' C12
run c03-callback-destructor-not-run runtime/src/callback.rs 's/(destructor)(self.data);/let _ = destructor;/' C03
run c06-kotlin-uses-method-name tool/src/kotlin/mod.rs '0,/method.abi_name.as_str()/s//method.name.as_str()/' C06
run c11-dart-always-contiguous tool/src/dart/mod.rs 's/fn is_contiguous_enum(\(.*\)) -> bool {/fn is_contiguous_enum(\1) -> bool { return true;/' C11
run c14-unsorted-includes tool/src/c/header.rs 's/BTreeSet/HashSet/g' C14
run c05-callback-in-struct-accepted core/src/hir/lowering.rs 's/if in_struct || !matches!(P::IN_OUT_STATUS, super::InputOrOutput::Input) {/if false {/' C05
run c01-callback-params-reversed tool/src/c/ty.rs 's/\.map(|p| self.gen_ty_name(&p.ty, header).to_string())/.rev().map(|p| self.gen_ty_name(\&p.ty, header).to_string())/' C01
run c03-callback-destructor-twice runtime/src/callback.rs 's/(destructor)(self.data);/(destructor)(self.data); (destructor)(self.data);/' C03
run c02-cpp-callback-never-deleted tool/templates/cpp/runtime.hpp.jinja 's/        delete reinterpret_cast<const function_t \*>(cb);/        (void)cb;/' C02
run c02-cpp-callback-string-arg-short tool/templates/cpp/runtime.hpp.jinja 's/return std::string_view{val.data, val.len};/return std::string_view{val.data, val.len > 2 ? val.len - 1 : val.len};/' C02
run c04-nanobind-keepalive-off-by-one tool/src/nanobind/ty.rs 's/                                i + 1 + self_number$/                                i + self_number/' C04
run c04-kotlin-opaque-return-drops-edges tool/templates/kotlin/OpaqueReturn.kt.jinja 's/{{param}}{%- endfor %}/listOf(){%- endfor %}/' C04
run c01-trait-vtable-destructor-last macro/src/lib.rs '0,/        pub destructor: Option<unsafe extern "C" fn(\*const c_void)>,/s///; 0,/        pub alignment: usize,/s//        pub alignment: usize, pub destructor: Option<unsafe extern "C" fn(*const c_void)>,/' C01
# reverts of repairs made to /repo: the check that found the defect must fire again
revert() { # commit checks...
  c="$1"; shift; name="revert-$c"; if [ -n "$FILTER" ] && [[ "$name" != *$FILTER* ]]; then return; fi
  git -C /repo diff "$c" "$c~1" > /verif/mutants/$name.patch
  out=$(timeout 2400 tools/seedtest.sh /verif/mutants/$name.patch "$@" 2>&1); rc=$?
  echo "$name rc=$rc :: $(echo "$out" | grep -E "^== C[0-9]+ exit=" | tr '\n' ' ')"
  rm -rf /verif/replays/C*
}
revert 2b69b64 C01
revert a3cad26 C01
revert 9a81775 C09
revert b081f38 C05
revert a9c6d26 C05
revert dea9526 C04
revert 2506317 C07
revert 057bbdd C05
revert 95ddb54 C02
revert 3813bce C05
revert 54caa68 C05
revert 2baf53a C07
revert 54ac860 C03
revert d967b9b C15
revert 3daa3c3 C09
revert 28e75dd C09
revert 43717e4 C05
revert 98d3a51 C17
revert 25680c8 C08
revert 2e90d21 C08
revert 9be1db8 C08
revert 7f9087a C08
revert 2b52f2e C16
revert c46cc13 C07
revert 832ce1a C09
revert bd477b6 C05
revert 44f4b4d C08
revert 57b16f7 C08
revert f23e696 C06
revert b8305ae C02
revert 8c12c05 C04
revert 536f122 C13
revert 9bea1b7 C04
revert 25cefdc C17 C13
revert e3cce72 C15
revert 1ff4174 C09
revert e1ffc85 C09 C01
revert 1fbc700 C09
revert 8cda771 C14
revert 41582cd C04
revert a0a84df C05
revert bf51494 C05
revert 8ea554b C09
revert c6447fe C07
revert fbeb775 C04
