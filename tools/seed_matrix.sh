#!/bin/bash
# usage: tools/seed_matrix.sh <VERIF_SEED> [id-filter]
# Runs every seeded regression (seeded/*/patch.diff) against the checks listed in its meta.json "detected_by" with the given
# VERIF_SEED and prints one line per seed: which checks exited 1 (detected). A regression counts as detected if any did.
cd /verif
export VERIF_SEED="$1"; filter="$2"
for d in seeded/*/; do
  id=$(basename "$d")
  if [ -n "$filter" ] && [[ "$id" != *$filter* ]]; then continue; fi
  if python3 -c "import json,sys;sys.exit(0 if json.load(open('$d/meta.json')).get('obsolete_since') else 1)"; then echo "seed=$VERIF_SEED $id skipped (obsolete: see meta.json)"; continue; fi
  checks=$(python3 -c "import json;print(' '.join(json.load(open('$d/meta.json'))['detected_by']))")
  out=$(timeout 3000 tools/seedtest.sh /verif/$d/patch.diff $checks 2>&1 | grep -E "^== C[0-9]+ exit=" | tr '\n' ' ')
  hit=no; [[ "$out" == *"exit=1"* ]] && hit=yes
  echo "seed=$VERIF_SEED $id detected=$hit :: $out"
  rm -rf /verif/replays/C*
done
