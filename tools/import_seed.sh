#!/bin/bash
# usage: tools/import_seed.sh <dir with out/ and wt/> <new seeded id> <CHECK_ID>...
# Copies a sub-agent's deliverables to seeded/<id>, removes its scratch worktree, confirms the change independently
# (tools/verify_seed.sh) and runs the named checks against it (tools/seedtest.sh).
src="$1"; id="$2"; shift 2
cd /verif; rm -rf seeded/$id; cp -r "$src/out" seeded/$id
git -C /repo worktree remove --force "$src/wt" 2>/dev/null; git -C /repo worktree prune
tools/verify_seed.sh $id 2>&1 | tail -1
timeout 2400 tools/seedtest.sh /verif/seeded/$id/patch.diff "$@" 2>&1 | grep -E "^== |INCONCL|PATCH" | head -4
