#!/bin/bash
# usage: tools/seedtest.sh <patch.diff> <CHECK_ID> [<CHECK_ID>...]
# Applies the patch to a scratch worktree of /repo HEAD (outside /repo and /verif), runs the quick checks against it
# with DV_REPO, prints the VIOLATION lines, removes the worktree and its build output.
patch="$1"; shift
name=$(echo "$patch" | md5sum | cut -c1-8)
wt=/tmp/mut/$name
rm -rf "$wt"; git -C /repo worktree prune
mkdir -p /tmp/mut
git -C /repo worktree add --detach "$wt" HEAD >/dev/null 2>&1 || exit 3
if ! git -C "$wt" apply --3way "$patch" >/dev/null 2>&1; then
  if ! (cd "$wt" && patch -p1 --fuzz=3 < "$patch" >/dev/null 2>&1); then
    echo "PATCH DOES NOT APPLY"; git -C /repo worktree remove --force "$wt"; exit 3
  fi
fi
rc=0
for id in "$@"; do
  out=$(cd /verif && DV_REPO="$wt" ./run "$id" 2>&1)
  code=$?
  echo "== $id exit=$code"
  echo "$out" | grep -E "^(VIOLATION|KNOWN-FINDING|INCONCLUSIVE|C[0-9]+ (quick|thorough))" | head -8
  echo "$out" | grep -A6 "^VIOLATION" | head -24
  [ $code -eq 1 ] || rc=1
done
tag=$(python3 -c "import hashlib;print('alt-'+hashlib.sha1(b'$wt').hexdigest()[:10])")
rm -rf "/verif/.build/$tag"
git -C /repo worktree remove --force "$wt"
exit $rc
