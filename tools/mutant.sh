#!/bin/bash
# usage: tools/mutant.sh <name> <file> <sed-expression> <CHECK_ID>...
# Applies a one-line mutation to a scratch worktree of /repo HEAD, stores the patch as mutants/<name>.patch and runs
# tools/seedtest.sh on it (exit 0 = every listed check caught it).
name="$1"; file="$2"; expr="$3"; shift 3
wt=/tmp/mutgen/$name
rm -rf "$wt"; git -C /repo worktree prune; mkdir -p /tmp/mutgen
git -C /repo worktree add --detach "$wt" HEAD >/dev/null 2>&1 || exit 3
sed -i "$expr" "$wt/$file"
git -C "$wt" diff > /verif/mutants/$name.patch
git -C /repo worktree remove --force "$wt"
if [ ! -s /verif/mutants/$name.patch ]; then echo "MUTATION DID NOT CHANGE ANYTHING"; exit 3; fi
/verif/tools/seedtest.sh /verif/mutants/$name.patch "$@"
