#!/bin/bash
# usage: tools/verify_seed.sh <ID>
# Confirms a seeded change independently: applies seeded/<ID>/patch.diff to a scratch worktree of /repo HEAD,
# checks that the workspace builds and the repository's own test suite passes, that the demonstration passes
# without the change and fails with it. Prints one summary line; removes the worktree and its build output.
id="$1"
S=/verif/seeded/$id
wt=/tmp/seedverify/$id/wt
rm -rf /tmp/seedverify/$id; mkdir -p /tmp/seedverify/$id
git -C /repo worktree prune
git -C /repo worktree add --detach "$wt" HEAD >/dev/null 2>&1 || { echo "$id worktree-failed"; exit 3; }
export CARGO_NET_OFFLINE=true
log=/tmp/seedverify/$id/log
# 1. demo on unchanged tree
( cd "$wt" && bash $S/demo/run_demo.sh "$wt" ) > $log.demo_clean 2>&1; d0=$?
# 2. apply
if ! git -C "$wt" apply --3way "$S/patch.diff" >/dev/null 2>&1; then
  if ! (cd "$wt" && patch -p1 --fuzz=3 < "$S/patch.diff" >/dev/null 2>&1); then echo "$id patch-does-not-apply"; git -C /repo worktree remove --force "$wt"; exit 3; fi
fi
# 3. test suite with the change
( cd "$wt" && cargo test --workspace --no-fail-fast --offline ) > $log.tests 2>&1; t=$?
passed=$(grep -E "^test result" $log.tests | awk '{s+=$4} END {print s}')
failed=$(grep -E "^test result" $log.tests | awk '{s+=$6} END {print s}')
# 4. demo with the change
( cd "$wt" && bash $S/demo/run_demo.sh "$wt" ) > $log.demo_patched 2>&1; d1=$?
echo "$id demo_clean_exit=$d0 tests_exit=$t passed=$passed failed=$failed demo_patched_exit=$d1"
git -C /repo worktree remove --force "$wt"
rm -rf /tmp/seedverify/$id/wt
